#!/bin/bash
# Build the rustc_private driver and warm the dependency cache (offline).
set -euo pipefail
HERE=$(cd "$(dirname "$0")" && pwd)
export CARGO_NET_OFFLINE=true
(cd "$HERE/driver" && cargo build --release --offline)
# one driver run over /repo's current tree: compiles the dependency graph once (~50 s)
python3 - <<PY
import sys
sys.path.insert(0, "$HERE/checker")
import facts
facts.load_program(verbose=True)
PY
echo "setup ok"
