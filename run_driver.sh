#!/bin/bash
# usage: run_driver.sh <repo> <out_dir> [target_dir]
# Runs vdrv over the three analysed workspace members of <repo>; writes <out_dir>/<crate>.json
set -euo pipefail
REPO=${1:-/repo}
OUT=${2:-/verif/.cache/facts/cur}
TGT=${3:-/verif/.cache/target}
HERE=$(cd "$(dirname "$0")" && pwd)
DRV=$HERE/driver/target/release/vdrv
(cd "$HERE/driver" && cargo build --release --offline >&2)
mkdir -p "$OUT" "$TGT"
rm -f "$OUT"/*.json
SYSROOT=$(rustc +nightly --print sysroot)
# cargo's freshness cache would otherwise skip the wrapper for the members
for m in rs1090 jet1090 decode1090; do
  rm -rf "$TGT"/debug/.fingerprint/$m-* 2>/dev/null || true
done
cd "$REPO"
export LD_LIBRARY_PATH="$SYSROOT/lib${LD_LIBRARY_PATH:+:$LD_LIBRARY_PATH}"
export RUSTFLAGS="-Zmir-opt-level=0 -Awarnings -Zalways-encode-mir -Zallow-features=doc_cfg,doc_auto_cfg"
export RUSTC_WORKSPACE_WRAPPER="$DRV"
export CARGO_TARGET_DIR="$TGT"
export CARGO_NET_OFFLINE=true
export VDRV_OUT="$OUT"
cargo +nightly check --offline -p rs1090 -p jet1090 -p decode1090 >&2
for m in rs1090 jet1090 decode1090; do
  [ -s "$OUT/$m.json" ] || { echo "vdrv: missing fact file for $m" >&2; exit 3; }
done
