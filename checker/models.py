"""Library contracts (trusted base) for the abstract interpreter.

Every function here models one external (non-workspace) callee: its result, its effect on
`&mut` arguments and - where the real function has a panic precondition - the obligation that
the precondition holds.  Anything not modelled falls back to Engine.external (havoc + trusted
total, or an open obligation if the name is in PANICKY_ITEMS)."""
from absint import *   # noqa
import absint as A

U63 = (1 << 63) - 1


class Models:
    def __init__(self):
        self.by_item = {}

    def add(self, item, pred, fn):
        self.by_item.setdefault(item, []).append((pred, fn))

    def find(self, c):
        cands = self.by_item.get(c.get('item'))
        if not cands:
            return None
        for pred, fn in cands:
            if pred(c):
                return fn
        return None


M = Models()


def model(item, trait=None, rself=None, did=None, rdid=None, name=None, pred=None):
    """register a per-state model: f(E, st, frame, b, t, c, args) -> value | None | [(st, value)]"""
    items = item if isinstance(item, (list, tuple)) else [item]

    def match(c):
        if trait is not None:
            tr = c.get('trait')
            if isinstance(trait, (list, tuple)):
                if tr not in trait:
                    return False
            elif tr != trait:
                return False
        if rself is not None:
            rs = c.get('rself') or ''
            if isinstance(rself, (list, tuple)):
                if not any(rs.startswith(x) for x in rself):
                    return False
            elif not rs.startswith(rself):
                return False
        if did is not None and not (c.get('did') or '').startswith(did):
            return False
        if rdid is not None and not (c.get('rdid') or c.get('did') or '').startswith(rdid):
            return False
        if name is not None and name not in (c.get('rname') or c.get('name') or ''):
            return False
        if pred is not None and not pred(c):
            return False
        return True

    def deco(f):
        def run(E, frame, b, t, sts, c, quiet):
            out = []
            saved = E._acc
            E._acc = []
            for st in sts:
                args = E.arg_vals(st, frame, t)
                r = f(E, st, frame, b, t, c, args)
                if r is None:
                    continue
                if isinstance(r, list):
                    for s2, v in r:
                        if t['t'] is not None:
                            E.write_dest(s2, frame, t, v)
                            out.append(s2)
                else:
                    if t['t'] is not None:
                        E.write_dest(st, frame, t, r)
                        out.append(st)
            flush_oblig(E, frame, b, t, quiet)
            E._acc = saved
            return out
        for it in items:
            M.add(it, match, run)
        return f
    return deco


def raw_model(item, **kw):
    """register a whole-call model: f(E, frame, b, t, sts, c, quiet) -> [states]"""
    items = item if isinstance(item, (list, tuple)) else [item]
    trait = kw.get('trait')
    rself = kw.get('rself')
    rdid = kw.get('rdid')
    pred = kw.get('pred')

    def match(c):
        if trait is not None and c.get('trait') != trait:
            return False
        if rself is not None and not (c.get('rself') or '').startswith(rself):
            return False
        if rdid is not None and not (c.get('rdid') or c.get('did') or '').startswith(rdid):
            return False
        if pred is not None and not pred(c):
            return False
        return True

    def deco(f):
        for it in items:
            M.add(it, match, f)
        return f
    return deco


def oblig(E, frame, b, t, ok, detail, nontrivial=True):
    """accumulate a precondition verdict for the current call site (flushed once per visit)"""
    E._acc.append((ok, detail if not ok else None, nontrivial))


def flush_oblig(E, frame, b, t, quiet):
    acc = E._acc
    E._acc = []
    if quiet or not acc:
        return
    ok = all(a[0] for a in acc)
    detail = next((a[1] for a in acc if not a[0]), None)
    E.record(frame, b, frame.info.ordinals.get(b, ('call:?', 0)), ok, detail, len(acc),
             any(a[2] for a in acc), sp=t.get('sp'))


def deref(E, st, v, tyid=None):
    """value behind a reference value (or the value itself when not a reference)"""
    v = E.expand(v)
    while v[0] == 'R':
        if v[1] is None:
            return ('T', tyid, None)
        E.pointee_init(st, v[1], tyid)
        v = E.expand(E.read_lv(st, (v[1], v[2]), tyid))
    return v


def scalar_of(E, st, v, tyid=None):
    return E.scalar(st, deref(E, st, v, tyid), tyid)


def enum_variants(E, st, v):
    v = E.expand(v)
    if v[0] != 'E':
        return None
    r = st.resolve(v)
    if r == BOT:
        return {}
    return dict(r[2])


def arg_ty(E, frame, t, i):
    return E.operand_ty(frame, t['args'][i])


def pointee_ty(E, frame, t, i):
    tyid = arg_ty(E, frame, t, i)
    if tyid is None:
        return None
    ty = E.types.get(tyid)
    while ty['k'] == 'ref':
        tyid = ty['to']
        ty = E.types.get(tyid)
    return tyid


def is_enum_named(E, tyid, names):
    if tyid is None:
        return False
    ty = E.types.get(tyid)
    return ty['k'] == 'adt' and ty['name'] in names


OPTION = ('core::option::Option', 'std::option::Option')
RESULT = ('core::result::Result', 'std::result::Result')


# ------------------------------------------------------------------------------------------
# Try / FromResidual

@model('branch', trait='std::ops::Try')
def try_branch(E, st, frame, b, t, c, args):
    vs = enum_variants(E, st, args[0])
    dty = E.dest_ty(frame, t)
    if vs is None:
        return E.expand(('T', dty, E.site(frame, b, 'br')))
    sty = arg_ty(E, frame, t, 0)
    out = []
    if is_enum_named(E, sty, RESULT):
        if 0 in vs:
            out.append((0, (vs[0][0],)))
        if 1 in vs:
            out.append((1, (('E', None, ((1, (vs[1][0],)),)),)))
    elif is_enum_named(E, sty, OPTION):
        if 1 in vs:
            out.append((0, (vs[1][0],)))
        if 0 in vs:
            out.append((1, (('E', None, ((0, ()),)),)))
    else:
        return E.expand(('T', dty, E.site(frame, b, 'br')))
    if not out:
        return None
    return ('E', T('e', E.site(frame, b, 'br')), tuple(out))


@model('from_residual', trait='std::ops::FromResidual')
def from_residual(E, st, frame, b, t, c, args):
    dty = E.dest_ty(frame, t)
    if is_enum_named(E, dty, RESULT):
        ty = E.types.get(dty)
        ety = ty['variants'][1]['fields'][0].get('ty')
        return ('E', None, ((1, (('T', ety, E.site(frame, b, 'res')),)),))
    if is_enum_named(E, dty, OPTION):
        return ('E', None, ((0, ()),))
    return ('T', dty, E.site(frame, b, 'res'))


@model('from_output', trait='std::ops::Try')
def from_output(E, st, frame, b, t, c, args):
    dty = E.dest_ty(frame, t)
    if is_enum_named(E, dty, RESULT):
        return ('E', None, ((0, (args[0],)),))
    if is_enum_named(E, dty, OPTION):
        return ('E', None, ((1, (args[0],)),))
    return ('T', dty, None)


# ------------------------------------------------------------------------------------------
# Option / Result

def _opt_or_res(c):
    rs = c.get('rself') or ''
    return rs.startswith(OPTION) or rs.startswith(RESULT)


@model(['unwrap', 'expect'], pred=_opt_or_res)
def unwrap(E, st, frame, b, t, c, args):
    vs = enum_variants(E, st, args[0])
    is_res = (c.get('rself') or '').startswith(RESULT)
    good = 0 if is_res else 1
    bad = 1 - good
    if vs is None:
        oblig(E, frame, b, t, False, '%s on a value that may be %s' % (c['item'], 'Err' if is_res else 'None'))
        return ('T', E.dest_ty(frame, t), E.site(frame, b, 'uw'))
    oblig(E, frame, b, t, bad not in vs, '%s on a value that may be %s' % (c['item'], 'Err' if is_res else 'None'))
    if good not in vs:
        return None
    # continuing implies the good variant
    e = E.expand(args[0])
    if e[0] == 'E' and e[1] is not None:
        st.erf[e[1]] = frozenset([good])
    return vs[good][0]


@model(['unwrap_err', 'expect_err'], pred=_opt_or_res)
def unwrap_err(E, st, frame, b, t, c, args):
    vs = enum_variants(E, st, args[0])
    if vs is None:
        oblig(E, frame, b, t, False, 'unwrap_err on a value that may be Ok')
        return ('T', E.dest_ty(frame, t), None)
    oblig(E, frame, b, t, 0 not in vs, 'unwrap_err on a value that may be Ok')
    if 1 not in vs:
        return None
    return vs[1][0]


@model(['is_some', 'is_none', 'is_ok', 'is_err'], pred=_opt_or_res)
def is_variant(E, st, frame, b, t, c, args):
    v = deref(E, st, args[0], pointee_ty(E, frame, t, 0))
    vs = enum_variants(E, st, v)
    item = c['item']
    want = {'is_some': 1, 'is_none': 0, 'is_ok': 0, 'is_err': 1}[item]
    if vs is None:
        return mk_int(0, 1, 0, T('o', E.site(frame, b, 'is')))
    if set(vs) == {want}:
        return const_int(1)
    if want not in vs:
        return const_int(0)
    out = []
    e = E.expand(v)
    for truth in (1, 0):
        s2 = st.copy()
        if e[1] is not None:
            cur = s2.erf.get(e[1])
            allowed = {want} if truth else set(vs) - {want}
            if cur is not None:
                allowed &= cur
            if not allowed:
                continue
            s2.erf[e[1]] = frozenset(allowed)
        out.append((s2, const_int(truth)))
    return out


@model(['unwrap_or'], pred=_opt_or_res)
def unwrap_or(E, st, frame, b, t, c, args):
    vs = enum_variants(E, st, args[0])
    is_res = (c.get('rself') or '').startswith(RESULT)
    good = 0 if is_res else 1
    if vs is None:
        return ('T', E.dest_ty(frame, t), E.site(frame, b, 'uo'))
    if getattr(E, 'split_unwrap_or', False) and good in vs and (1 - good) in vs:
        # opt-in (C13-P3): keep "the payload" and "the default" as two states instead of joining the two values
        out = []
        e = E.expand(args[0])
        for which in (good, 1 - good):
            s2 = st.copy()
            if e[0] == 'E' and e[1] is not None:
                s2.erf[e[1]] = frozenset({which})
            out.append((s2, E.deep_resolve(st, vs[good][0]) if which == good else E.deep_resolve(st, args[1])))
        return out
    r = BOT
    if good in vs:
        r = join(r, E.deep_resolve(st, vs[good][0]))
    if (1 - good) in vs:
        r = join(r, E.deep_resolve(st, args[1]))
    return r


@model(['unwrap_or_default'], pred=_opt_or_res)
def unwrap_or_default(E, st, frame, b, t, c, args):
    vs = enum_variants(E, st, args[0])
    is_res = (c.get('rself') or '').startswith(RESULT)
    good = 0 if is_res else 1
    dty = E.dest_ty(frame, t)
    if vs is None:
        return ('T', dty, E.site(frame, b, 'uo'))
    r = BOT
    if good in vs:
        r = join(r, E.deep_resolve(st, vs[good][0]))
    if (1 - good) in vs:
        ty = E.types.get(dty) if dty is not None else None
        if ty and ty['k'] in ('int', 'uint', 'bool'):
            r = join(r, const_int(0))
        elif ty and ty['k'] == 'float':
            r = join(r, ('F', 0.0, 0.0, False, None))
        else:
            r = join(r, ('T', dty, None))
    return r


@model(['ok'], rself=RESULT)
def res_ok(E, st, frame, b, t, c, args):
    vs = enum_variants(E, st, args[0])
    if vs is None:
        return E.expand(('T', E.dest_ty(frame, t), E.site(frame, b, 'ok')))
    out = []
    if 1 in vs:
        out.append((0, ()))
    if 0 in vs:
        out.append((1, (vs[0][0],)))
    return ('E', None, tuple(out))


@model(['err'], rself=RESULT)
def res_err(E, st, frame, b, t, c, args):
    vs = enum_variants(E, st, args[0])
    if vs is None:
        return E.expand(('T', E.dest_ty(frame, t), E.site(frame, b, 'er')))
    out = []
    if 0 in vs:
        out.append((0, ()))
    if 1 in vs:
        out.append((1, (vs[1][0],)))
    return ('E', None, tuple(out))


@model(['ok_or'], rself=OPTION)
def opt_ok_or(E, st, frame, b, t, c, args):
    vs = enum_variants(E, st, args[0])
    if vs is None:
        return E.expand(('T', E.dest_ty(frame, t), E.site(frame, b, 'oo')))
    out = []
    if 1 in vs:
        out.append((0, (vs[1][0],)))
    if 0 in vs:
        out.append((1, (args[1],)))
    return ('E', None, tuple(out))


@model(['as_ref', 'as_mut', 'as_deref'], pred=_opt_or_res)
def opt_as_ref(E, st, frame, b, t, c, args):
    r = E.expand(args[0])
    pt = pointee_ty(E, frame, t, 0)
    v = deref(E, st, r, pt)
    vs = enum_variants(E, st, v)
    if vs is None or r[0] != 'R' or r[1] is None:
        return E.expand(('T', E.dest_ty(frame, t), E.site(frame, b, 'ar')))
    out = []
    mut = c['item'] == 'as_mut'
    for vi, fs in sorted(vs.items()):
        out.append((vi, tuple(('R', r[1], r[2] + (('v', vi), i), mut) for i in range(len(fs)))))
    e = E.expand(v)
    return ('E', e[1], tuple(out))


@model(['copied', 'cloned'], rself=OPTION)
def opt_copied(E, st, frame, b, t, c, args):
    vs = enum_variants(E, st, args[0])
    if vs is None:
        return E.expand(('T', E.dest_ty(frame, t), E.site(frame, b, 'cp')))
    out = []
    for vi, fs in sorted(vs.items()):
        out.append((vi, tuple(deref(E, st, f) for f in fs)))
    e = E.expand(args[0])
    return ('E', e[1], tuple(out))


def _closure_arg(E, frame, t):
    cls = E.closure_bodies_in(frame, t)
    return cls[0] if cls else None


@raw_model(['map', 'map_err', 'and_then', 'map_or', 'map_or_else', 'is_some_and', 'is_ok_and', 'or_else',
            'unwrap_or_else', 'ok_or_else', 'filter', 'inspect', 'is_none_or', 'then', 'then_some'],
           pred=lambda c: _opt_or_res(c))
def opt_combinators(E, frame, b, t, sts, c, quiet):
    """Option/Result combinators taking closures: closures are analysed with the payload as
    argument; the result is rebuilt per variant."""
    item = c['item']
    is_res = (c.get('rself') or '').startswith(RESULT)
    good = 0 if is_res else 1
    bad = 1 - good
    out = []
    dty = E.dest_ty(frame, t)
    cls = E.closure_bodies_in(frame, t)
    for st in sts:
        args = E.arg_vals(st, frame, t)
        vs = enum_variants(E, st, args[0])
        if vs is None or (not cls and item not in ('map_or', 'then_some')):
            s2 = st
            for ci, body in cls:
                s2, _ = E.run_closure_any(frame, b, t, s2, ci, body, quiet)
            E.write_dest(s2, frame, t, E.expand(('T', dty, E.site(frame, b, 'cmb'))))
            out.append(s2)
            continue
        s2 = st
        res = None

        def call(ci_body, argv):
            nonlocal s2
            ci, body = ci_body
            s2, r = E.run_closure_any(frame, b, t, s2, ci, body, quiet, arg_vals=argv)
            return r
        if item in ('map', 'and_then') and cls and hasattr(E, 'run_closure_once'):
            # the closure runs exactly once on the good payload: its return paths stay separate states
            if bad in vs:
                s_bad = st.copy() if good in vs else st
                E.write_dest(s_bad, frame, t, ('E', None, ((bad, vs[bad] if (is_res or item == 'map') else ()),)))
                out.append(s_bad)
            if good in vs:
                ci, body = cls[0]
                for s_i, r_i in E.run_closure_once(frame, b, t, st, ci, body, quiet, [vs[good][0]]):
                    r_i = E.deep_resolve(s_i, r_i) if r_i[0] in ('I', 'F', 'E', 'A') else r_i
                    if r_i == BOT:
                        continue
                    E.write_dest(s_i, frame, t, ('E', None, ((good, (r_i,)),)) if item == 'map' else r_i)
                    out.append(s_i)
            continue
        if item == 'map_or' and cls and not is_res and hasattr(E, 'run_closure_once') and len(args) > 1:
            # Option::map_or(default, f): the default for None, f(payload) (run once, paths unmerged) for Some
            if bad in vs:
                s_bad = st.copy() if good in vs else st
                E.write_dest(s_bad, frame, t, args[1])
                out.append(s_bad)
            if good in vs:
                ci, body = cls[0]
                for s_i, r_i in E.run_closure_once(frame, b, t, st, ci, body, quiet, [vs[good][0]]):
                    if r_i == BOT:
                        continue
                    E.write_dest(s_i, frame, t, r_i)
                    out.append(s_i)
            continue
        if item == 'map':
            parts = []
            if bad in vs:
                parts.append((bad, vs[bad]))
            if good in vs:
                r = call(cls[0], [vs[good][0]])
                if r != BOT:
                    parts.append((good, (r,)))
            res = ('E', None, tuple(sorted(parts))) if parts else None
        elif item == 'map_err':
            parts = []
            if 0 in vs:
                parts.append((0, vs[0]))
            if 1 in vs:
                r = call(cls[0], [vs[1][0]])
                if r != BOT:
                    parts.append((1, (r,)))
            res = ('E', None, tuple(sorted(parts))) if parts else None
        elif item in ('and_then',):
            r = BOT
            if good in vs:
                r = call(cls[0], [vs[good][0]])
            if bad in vs:
                b_ = ('E', None, ((bad, vs[bad] if is_res else ()),))
                r = join(r, b_)
            res = r if r != BOT else None
        elif item in ('unwrap_or_else', 'map_or_else', 'map_or'):
            r = BOT
            if item == 'unwrap_or_else':
                if good in vs:
                    r = join(r, E.deep_resolve(s2, vs[good][0]))
                if bad in vs:
                    r = join(r, call(cls[0], list(vs[bad])))
            elif item == 'map_or_else':
                # (default_fn, f)
                if bad in vs:
                    r = join(r, call(cls[0], list(vs[bad])))
                if good in vs and len(cls) > 1:
                    r = join(r, call(cls[1], [vs[good][0]]))
                elif good in vs:
                    r = ('T', dty, None)
            else:
                if bad in vs:
                    r = join(r, E.deep_resolve(s2, args[1]))
                if good in vs and cls:
                    r = join(r, call(cls[0], [vs[good][0]]))
                elif good in vs:
                    r = ('T', dty, None)
            res = r if r != BOT else None
        elif item in ('is_some_and', 'is_ok_and', 'is_none_or'):
            r = BOT
            if good in vs:
                r = join(r, call(cls[0], [vs[good][0]]))
            if bad in vs:
                r = join(r, const_int(1 if item == 'is_none_or' else 0))
            res = r if r != BOT else None
        else:
            for cb in cls:
                call(cb, None)
            res = E.expand(('T', dty, E.site(frame, b, 'cmb')))
        if res is None:
            continue
        E.write_dest(s2, frame, t, res)
        out.append(s2)
    return out


# ------------------------------------------------------------------------------------------
# conversions / clone / comparison on primitives

def _prim_self(c):
    rs = c.get('rself') or ''
    return rs in ('u8', 'u16', 'u32', 'u64', 'u128', 'usize', 'i8', 'i16', 'i32', 'i64', 'i128', 'isize', 'bool', 'char', 'f32', 'f64')


@model(['from', 'into'], trait=('std::convert::From', 'std::convert::Into'))
def conv_from(E, st, frame, b, t, c, args):
    dty = E.dest_ty(frame, t)
    sty = arg_ty(E, frame, t, 0)
    if dty is not None and sty is not None:
        if dty == sty:
            return args[0]
        d, s = E.types.get(dty), E.types.get(sty)
        if d['k'] in ('int', 'uint') and s['k'] in ('int', 'uint', 'bool', 'char'):
            v = E.scalar(st, args[0], sty)
            return v
        if d['k'] == 'float' and s['k'] in ('int', 'uint'):
            v = E.scalar(st, args[0], sty)
            if v[0] == 'I':
                return E.reg(('F', float(v[1]), float(v[2]), False, A.mkterm('itof', v[4])))
        if d['k'] == 'float' and s['k'] == 'float':
            return E.scalar(st, args[0], sty)
        if E.types.is_seq_adt(d):
            # String::from(&str), Vec::from(slice)
            v = deref(E, st, args[0], None)
            if v[0] == 'S':
                return v
    # workspace From impls are inlined by the engine (they have MIR); everything else: unknown
    return E.expand(('T', dty, E.site(frame, b, 'cv')))


@model(['try_from', 'try_into'], trait=('std::convert::TryFrom', 'std::convert::TryInto'),
       pred=lambda c: (c.get('rcrate') in ('core', 'std', 'alloc')))
def conv_try_from(E, st, frame, b, t, c, args):
    dty = E.dest_ty(frame, t)
    sty = arg_ty(E, frame, t, 0)
    rty = E.types.get(dty) if dty is not None else None
    if rty and rty['k'] == 'adt' and rty['name'] in RESULT and sty is not None:
        okty = rty['variants'][0]['fields'][0].get('ty')
        erty = rty['variants'][1]['fields'][0].get('ty')
        d, s = (E.types.get(okty) if okty is not None else None), E.types.get(sty)
        if d and d['k'] in ('int', 'uint') and s['k'] in ('int', 'uint'):
            v = E.scalar(st, args[0], sty)
            lo_t, hi_t = int_range(d)
            if v[0] == 'I':
                parts = []
                lo, hi = max(v[1], lo_t), min(v[2], hi_t)
                if lo <= hi:
                    parts.append((0, (E.reg(mk_int(lo, hi, v[3], v[4])),)))
                if v[1] < lo_t or v[2] > hi_t:
                    parts.append((1, (('T', erty, None),)))
                return ('E', T('e', E.site(frame, b, 'tf')), tuple(parts))
    return E.expand(('T', dty, E.site(frame, b, 'tf')))


@model(['clone'], trait='std::clone::Clone', pred=lambda c: c.get('rcrate') in ('core', 'std', 'alloc'))
def clone(E, st, frame, b, t, c, args):
    v = deref(E, st, args[0], pointee_ty(E, frame, t, 0))
    if v[0] == 'T' and v[1] is None:
        return ('T', E.dest_ty(frame, t), v[2])
    return v


@model(['eq', 'ne', 'lt', 'le', 'gt', 'ge'], trait=('std::cmp::PartialEq', 'std::cmp::PartialOrd'),
       pred=lambda c: c.get('rcrate') in ('core', 'std', 'alloc'))
def cmp_prim(E, st, frame, b, t, c, args):
    op = {'eq': 'Eq', 'ne': 'Ne', 'lt': 'Lt', 'le': 'Le', 'gt': 'Gt', 'ge': 'Ge'}[c['item']]
    a = deref(E, st, args[0])
    bb = deref(E, st, args[1])
    a = E.scalar(st, a, pointee_ty(E, frame, t, 0))
    bb = E.scalar(st, bb, pointee_ty(E, frame, t, 1))
    if a[0] in ('I', 'F') and a[0] == bb[0]:
        if a[0] == 'F' and (a[3] or bb[3] or a[1] > a[2] or bb[1] > bb[2]):
            d = None
        else:
            d = A.cmp_decide(op, a, bb)
        if d is not None:
            return const_int(1 if d else 0)
        ta = a[4] or (E._fconst_term(a) if a[0] == 'F' else None)
        tb = bb[4] or (E._fconst_term(bb) if bb[0] == 'F' else None)
        return E.reg(mk_int(0, 1, 0, A.mkterm(op, ta, tb) or T('o', E.site(frame, b, 'cmp'))))
    # byte-string equality on known constants
    if a[0] == 'S' and bb[0] == 'S' and a[3] is not None and bb[3] is not None and op in ('Eq', 'Ne'):
        if all(is_const(x) for x in a[3]) and all(is_const(x) for x in bb[3]):
            same = tuple(x[1] for x in a[3]) == tuple(x[1] for x in bb[3])
            return const_int(1 if same == (op == 'Eq') else 0)
    # equality of a symbolic string (identified by its length term) with a constant
    if a[0] == 'S' and bb[0] == 'S' and op in ('Eq', 'Ne'):
        for x, y in ((a, bb), (bb, a)):
            if y[3] is not None and all(is_const(i) for i in y[3]) and x[3] is None:
                ln = st.resolve(x[1])
                if ln != BOT and ln[0] == 'I' and ln[4] is not None and ln[4][0] == 'len':
                    if not (ln[1] <= len(y[3]) <= ln[2]):
                        return const_int(0 if op == 'Eq' else 1)
                    tm = T('streq', ln[4], bytes(i[1] for i in y[3]).hex())
                    if op == 'Ne':
                        tm = T('Not', tm)
                    return E.reg(mk_int(0, 1, 0, tm))
    # fieldless enum equality
    va, vb = enum_variants(E, st, a), enum_variants(E, st, bb)
    if va is not None and vb is not None and op in ('Eq', 'Ne') and len(va) == 1 and len(vb) == 1:
        (ia, fa), = va.items()
        (ib, fb), = vb.items()
        if ia == ib and len(fa) == 1 and len(fb) == 1:
            # same variant with one scalar payload (Some(x) == Some(y)): compare the payloads
            pa, pb = E.scalar(st, fa[0]), E.scalar(st, fb[0])
            if pa[0] in ('I', 'F') and pa[0] == pb[0] and not (pa[0] == 'F' and (pa[3] or pb[3])):
                d = A.cmp_decide(op, pa, pb)
                if d is not None:
                    return const_int(1 if d else 0)
                ta = pa[4] or (E._fconst_term(pa) if pa[0] == 'F' else None)
                tb = pb[4] or (E._fconst_term(pb) if pb[0] == 'F' else None)
                return E.reg(mk_int(0, 1, 0, A.mkterm(op, ta, tb) or T('o', E.site(frame, b, 'cmp'))))
    if va is not None and vb is not None and op in ('Eq', 'Ne') and len(va) == 1 and len(vb) == 1:
        (ia, fa), = va.items()
        (ib, fb), = vb.items()
        if ia != ib:
            return const_int(0 if op == 'Eq' else 1)
        if not fa and not fb:
            return const_int(1 if op == 'Eq' else 0)
    if va is not None and vb is not None and op in ('Eq', 'Ne') and 1 <= len(va) <= 3 and 1 <= len(vb) <= 3 and len(va) * len(vb) > 1 \
            and a[0] == 'E' and bb[0] == 'E' and not getattr(E, '_in_enum_split', False):
        # Option == Option with an undetermined variant: one state per combination of variants
        outs = []
        E._in_enum_split = True
        try:
            for ia, fa in va.items():
                for ib, fb in vb.items():
                    s_i = st.copy()
                    if a[1] is not None:
                        s_i.erf[a[1]] = frozenset({ia})
                    if bb[1] is not None:
                        s_i.erf[bb[1]] = frozenset({ib})
                    if ia != ib:
                        outs.append((s_i, const_int(0 if op == 'Eq' else 1)))
                    elif not fa and not fb:
                        outs.append((s_i, const_int(1 if op == 'Eq' else 0)))
                    elif len(fa) == 1 and len(fb) == 1:
                        pa, pb = E.scalar(s_i, fa[0]), E.scalar(s_i, fb[0])
                        if pa[0] in ('I', 'F') and pa[0] == pb[0] and not (pa[0] == 'F' and (pa[3] or pb[3])):
                            d = A.cmp_decide(op, pa, pb)
                            if d is not None:
                                outs.append((s_i, const_int(1 if d else 0)))
                            else:
                                ta = pa[4] or (E._fconst_term(pa) if pa[0] == 'F' else None)
                                tb = pb[4] or (E._fconst_term(pb) if pb[0] == 'F' else None)
                                outs.append((s_i, E.reg(mk_int(0, 1, 0, A.mkterm(op, ta, tb) or T('o', E.site(frame, b, 'cmp'))))))
                        else:
                            outs.append((s_i, mk_int(0, 1, 0, T('o', E.site(frame, b, 'cmp')))))
                    else:
                        outs.append((s_i, mk_int(0, 1, 0, T('o', E.site(frame, b, 'cmp')))))
        finally:
            E._in_enum_split = False
        return outs
    return mk_int(0, 1, 0, T('o', E.site(frame, b, 'cmp')))


ARITH = {'add': 'Add', 'sub': 'Sub', 'mul': 'Mul', 'div': 'Div', 'rem': 'Rem', 'shl': 'Shl', 'shr': 'Shr',
         'bitand': 'BitAnd', 'bitor': 'BitOr', 'bitxor': 'BitXor'}
ARITH_TRAITS = tuple('std::ops::' + x for x in ('Add', 'Sub', 'Mul', 'Div', 'Rem', 'Shl', 'Shr', 'BitAnd', 'BitOr', 'BitXor'))


@model(list(ARITH), trait=ARITH_TRAITS, pred=lambda c: c.get('rcrate') == 'core')
def arith_ref(E, st, frame, b, t, c, args):
    """core's forward_ref impls (`<u8 as Sub<&u8>>::sub`, `<&u8 as Shr<i32>>::shr`): the primitive
    checked operation (they inherit the caller's overflow checks)"""
    op = ARITH[c['item']]
    dty = E.dest_ty(frame, t)
    ty = E.types.get(dty) if dty is not None else None
    a = E.scalar(st, deref(E, st, args[0]), pointee_ty(E, frame, t, 0))
    bb = E.scalar(st, deref(E, st, args[1]), pointee_ty(E, frame, t, 1))
    if ty is None or a[0] != bb[0] or a[0] not in ('I', 'F'):
        if ty is not None and ty['k'] in ('int', 'uint'):
            oblig(E, frame, b, t, False, 'arithmetic on unknown operands')
        return E.expand(('T', dty, E.site(frame, b, 'ar')))
    if a[0] == 'F':
        r = A.float_binop(op, a, bb, ty.get('bits', 64))
        if r is None:
            return ('T', dty, None)
        return E.reg((r[0], r[1], r[2], r[3], A.mkterm(op, a[4] or E._fconst_term(a), bb[4] or E._fconst_term(bb))))
    if op in ('Div', 'Rem'):
        zero_ok = not (bb[1] <= 0 <= bb[2])
        oblig(E, frame, b, t, zero_ok, '%s by a divisor that may be zero: %s' % (op, show_val(bb)))
    if op in ('Shl', 'Shr'):
        bits = ty['bits']
        ok = 0 <= bb[1] and bb[2] < bits
        oblig(E, frame, b, t, ok, 'shift amount may exceed the type width: %s' % show_val(bb))
    res, ovf = A.int_binop(op, a, bb, ty)
    if res is None or res == BOT:
        return None if res == BOT else ('T', dty, None)
    lo_t, hi_t = int_range(ty)
    lo, hi, zeros = res
    if op in ('Add', 'Sub', 'Mul'):
        oblig(E, frame, b, t, not ovf, 'attempt to %s with overflow: %s %s' % (c['item'], show_val(a), show_val(bb)))
    lo, hi = max(lo, lo_t), min(hi, hi_t)
    if lo > hi:
        return None
    return E.reg(mk_int(lo, hi, zeros, A.mkterm(op, a[4], bb[4])))


@model(['not'], trait='std::ops::Not', pred=lambda c: c.get('rcrate') == 'core')
def not_ref(E, st, frame, b, t, c, args):
    a = E.scalar(st, deref(E, st, args[0]), pointee_ty(E, frame, t, 0))
    dty = E.dest_ty(frame, t)
    ty = E.types.get(dty) if dty is not None else None
    if a[0] == 'I' and ty and ty['k'] == 'bool':
        return E.reg(mk_int(1 - a[2], 1 - a[1], 0, A.mkterm('Not', a[4])))
    return E.expand(('T', dty, E.site(frame, b, 'not')))


# ------------------------------------------------------------------------------------------
# integer / float methods

def _int_self(c):
    rs = c.get('rself') or ''
    return rs in ('u8', 'u16', 'u32', 'u64', 'u128', 'usize', 'i8', 'i16', 'i32', 'i64', 'i128', 'isize')


def _float_self(c):
    return (c.get('rself') or '') in ('f32', 'f64')


@model(['wrapping_add', 'wrapping_sub', 'wrapping_mul', 'wrapping_shl', 'wrapping_shr', 'wrapping_neg'], pred=_int_self)
def wrapping(E, st, frame, b, t, c, args):
    dty = E.dest_ty(frame, t)
    ty = E.types.get(dty)
    a = E.scalar(st, args[0], dty)
    if c['item'] == 'wrapping_neg':
        return E.expand(('T', dty, E.site(frame, b, 'w')))
    bb = E.scalar(st, args[1], arg_ty(E, frame, t, 1))
    op = {'wrapping_add': 'Add', 'wrapping_sub': 'Sub', 'wrapping_mul': 'Mul', 'wrapping_shl': 'Shl', 'wrapping_shr': 'Shr'}[c['item']]
    if a[0] != 'I' or bb[0] != 'I':
        return E.expand(('T', dty, E.site(frame, b, 'w')))
    if op in ('Shl', 'Shr'):
        bits = ty['bits']
        if not (0 <= bb[1] and bb[2] < bits):
            lo_t, hi_t = int_range(ty)
            return mk_int(lo_t, hi_t)
    res, ovf = A.int_binop(op, a, bb, ty)
    lo_t, hi_t = int_range(ty)
    if A.is_const(a) and A.is_const(bb) and op in ('Add', 'Sub', 'Mul'):
        # both operands known: the wrapped result is computed exactly
        m = hi_t - lo_t + 1
        x = {'Add': a[1] + bb[1], 'Sub': a[1] - bb[1], 'Mul': a[1] * bb[1]}[op]
        x = (x - lo_t) % m + lo_t
        return const_int(x)
    if res is None or res == BOT or ovf:
        if res not in (None, BOT) and op in ('Add', 'Sub') and lo_t == 0:
            m = hi_t + 1
            if res[0] // m == res[1] // m:      # the whole interval wraps the same number of times
                return mk_int(res[0] % m, res[1] % m, 0, T('o', E.site(frame, b, 'w')))
        return mk_int(lo_t, hi_t, 0, T('o', E.site(frame, b, 'w')))
    return E.reg(mk_int(res[0], res[1], res[2], A.mkterm(op, a[4], bb[4])))


@model(['saturating_sub', 'saturating_add', 'saturating_mul'], pred=_int_self)
def saturating(E, st, frame, b, t, c, args):
    dty = E.dest_ty(frame, t)
    ty = E.types.get(dty)
    a = E.scalar(st, args[0], dty)
    bb = E.scalar(st, args[1], dty)
    op = {'saturating_sub': 'Sub', 'saturating_add': 'Add', 'saturating_mul': 'Mul'}[c['item']]
    lo_t, hi_t = int_range(ty)
    if a[0] != 'I' or bb[0] != 'I':
        return mk_int(lo_t, hi_t)
    res, ovf = A.int_binop(op, a, bb, ty)
    lo, hi = max(lo_t, min(hi_t, res[0])), max(lo_t, min(hi_t, res[1]))
    return E.reg(mk_int(lo, hi, 0 if ovf else res[2], None if ovf else A.mkterm(op, a[4], bb[4])))


@model(['checked_sub', 'checked_add', 'checked_mul', 'checked_div', 'checked_rem'], pred=_int_self)
def checked(E, st, frame, b, t, c, args):
    dty = E.dest_ty(frame, t)
    sty = arg_ty(E, frame, t, 0)
    ty = E.types.get(sty)
    a = E.scalar(st, args[0], sty)
    bb = E.scalar(st, args[1], sty)
    op = {'checked_sub': 'Sub', 'checked_add': 'Add', 'checked_mul': 'Mul', 'checked_div': 'Div', 'checked_rem': 'Rem'}[c['item']]
    if a[0] != 'I' or bb[0] != 'I':
        return E.expand(('T', dty, E.site(frame, b, 'ck')))
    lo_t, hi_t = int_range(ty)
    res, ovf = A.int_binop(op, a, bb, ty)
    parts = []
    may_fail = ovf or (op in ('Div', 'Rem') and bb[1] <= 0 <= bb[2])
    if res is not None and res != BOT:
        lo, hi = max(res[0], lo_t), min(res[1], hi_t)
        if lo <= hi:
            parts.append((1, (E.reg(mk_int(lo, hi, res[2], A.mkterm(op, a[4], bb[4]))),)))
    if may_fail or not parts:
        parts.append((0, ()))
    return ('E', T('e', E.site(frame, b, 'ck')), tuple(sorted(parts)))


@model(['abs'], pred=_int_self)
def int_abs(E, st, frame, b, t, c, args):
    dty = E.dest_ty(frame, t)
    ty = E.types.get(dty)
    a = E.scalar(st, args[0], dty)
    lo_t, hi_t = int_range(ty)
    if a[0] != 'I':
        oblig(E, frame, b, t, False, 'abs of unknown value')
        return mk_int(0, hi_t)
    oblig(E, frame, b, t, a[1] > lo_t, 'abs() overflows on %s::MIN: %s' % (ty['s'], show_val(a)))
    if a[1] >= 0:
        return a
    lo = 0 if a[2] >= 0 else -a[2]
    hi = min(max(-a[1], a[2]), hi_t)
    return E.reg(mk_int(lo, hi, 0, A.mkterm('abs', a[4])))


@model(['unsigned_abs', 'abs_diff'], pred=_int_self)
def int_uabs(E, st, frame, b, t, c, args):
    return E.expand(('T', E.dest_ty(frame, t), E.site(frame, b, 'ua')))


@model(['rem_euclid', 'div_euclid'], pred=_int_self)
def int_rem_euclid(E, st, frame, b, t, c, args):
    dty = E.dest_ty(frame, t)
    ty = E.types.get(dty)
    a = E.scalar(st, args[0], dty)
    bb = E.scalar(st, args[1], dty)
    lo_t, hi_t = int_range(ty)
    if a[0] != 'I' or bb[0] != 'I':
        oblig(E, frame, b, t, False, 'euclidean division on unknown operands')
        return mk_int(lo_t, hi_t)
    ok = not (bb[1] <= 0 <= bb[2]) and not (a[1] == lo_t and bb[1] <= -1 <= bb[2] and lo_t < 0)
    oblig(E, frame, b, t, ok, '%s: divisor may be zero (or MIN / -1): %s' % (c['item'], show_val(bb)))
    if c['item'] == 'rem_euclid':
        m = max(abs(bb[1]), abs(bb[2]))
        return E.reg(mk_int(0, max(m - 1, 0), 0, A.mkterm('rem_euclid', a[4], bb[4]) or T('o', E.site(frame, b, 're'))))
    return mk_int(lo_t, hi_t)


@model(['min', 'max'], pred=lambda c: _int_self(c) or (c.get('trait') == 'std::cmp::Ord' and c.get('rcrate') == 'core') or (c.get('rdid') or c.get('did') or '') in ('core::cmp::max', 'core::cmp::min'))
def int_minmax(E, st, frame, b, t, c, args):
    dty = E.dest_ty(frame, t)
    a = E.scalar(st, args[0], dty)
    bb = E.scalar(st, args[1], dty)
    if a[0] != 'I' or bb[0] != 'I':
        return E.expand(('T', dty, E.site(frame, b, 'mm')))
    if c['item'] == 'min':
        return E.reg(mk_int(min(a[1], bb[1]), min(a[2], bb[2]), 0, A.mkterm('min', a[4], bb[4])))
    return E.reg(mk_int(max(a[1], bb[1]), max(a[2], bb[2]), 0, A.mkterm('max', a[4], bb[4])))


@model(['pow'], pred=_int_self)
def int_pow(E, st, frame, b, t, c, args):
    dty = E.dest_ty(frame, t)
    ty = E.types.get(dty)
    a = E.scalar(st, args[0], dty)
    e = E.scalar(st, args[1], arg_ty(E, frame, t, 1))
    lo_t, hi_t = int_range(ty)
    if a[0] == 'I' and e[0] == 'I' and a[1] >= 0 and e[2] <= 128:
        hi = a[2] ** e[2] if a[2] > 1 else a[2]
        if a[2] >= 1:
            hi = max(hi, 1)
        lo = a[1] ** e[1] if a[1] > 1 else min(a[1], 1 if e[1] == 0 else a[1])
        oblig(E, frame, b, t, hi <= hi_t, 'pow may overflow: %s ^ %s' % (show_val(a), show_val(e)))
        return mk_int(max(min(lo, hi), 0), min(hi, hi_t))
    oblig(E, frame, b, t, False, 'pow may overflow (unknown operands)')
    return mk_int(lo_t, hi_t)


@model(['to_le_bytes', 'to_be_bytes', 'to_ne_bytes'], pred=_int_self)
def to_bytes(E, st, frame, b, t, c, args):
    n = E.types.get(arg_ty(E, frame, t, 0))['bits'] // 8
    u8 = E.types.u8()
    site = E.site(frame, b, 'tb')
    items = tuple(mk_int(0, 255, 0, T('o', (site, i))) for i in range(n))
    return ('S', const_int(n), mk_int(0, 255), items)


@model(['from_le_bytes', 'from_be_bytes', 'from_ne_bytes', 'count_ones', 'leading_zeros', 'trailing_zeros',
        'swap_bytes', 'to_be', 'to_le', 'from_be', 'from_le', 'rotate_left', 'rotate_right', 'reverse_bits',
        'is_power_of_two', 'signum', 'overflowing_sub', 'overflowing_add'], pred=_int_self)
def int_misc(E, st, frame, b, t, c, args):
    return E.expand(('T', E.dest_ty(frame, t), E.site(frame, b, 'im')))


import math as _m


def _mono(E, st, frame, b, t, c, args, f, lo_dom=None, rng=None, nan_outside=False, name=None):
    dty = E.dest_ty(frame, t)
    a = E.scalar(st, deref(E, st, args[0]), dty)
    if a[0] != 'F':
        return ('F', -INF, INF, True, None)
    if a[1] > a[2]:
        return ('F', INF, -INF, True, None)
    nan = a[3]
    lo, hi = a[1], a[2]
    if lo_dom is not None and lo < lo_dom:
        nan = True
        lo = lo_dom
        if hi < lo:
            return ('F', INF, -INF, True, None)
    try:
        rl = f(lo) if lo not in (INF, -INF) else (rng[0] if rng else -INF)
        rh = f(hi) if hi not in (INF, -INF) else (rng[1] if rng else INF)
    except (ValueError, OverflowError):
        return ('F', -INF, INF, True, None)
    rl, rh = fdown(fdown(rl)), fup(fup(rh))
    if rng:
        rl, rh = max(rl, rng[0]), min(rh, rng[1])
    return E.reg(('F', rl, rh, nan, A.mkterm(name or c['item'], a[4] or E._fconst_term(a))))


def _libm_or_f(c):
    return _float_self(c) or c.get('rcrate') == 'libm'


@model(['abs', 'fabs', 'fabsf'], pred=_libm_or_f)
def f_abs(E, st, frame, b, t, c, args):
    a = E.scalar(st, deref(E, st, args[0]), E.dest_ty(frame, t))
    if a[0] != 'F':
        return ('F', 0.0, INF, True, None)
    if a[1] > a[2]:
        return a
    if a[1] >= 0:
        lo, hi = a[1], a[2]
    elif a[2] <= 0:
        lo, hi = -a[2], -a[1]
    else:
        lo, hi = 0.0, max(-a[1], a[2])
    return E.reg(('F', lo, hi, a[3], A.mkterm('fabs', a[4] or E._fconst_term(a))))


@model(['floor', 'floorf', 'ceil', 'ceilf', 'round', 'roundf', 'trunc', 'truncf'], pred=_libm_or_f)
def f_round(E, st, frame, b, t, c, args):
    item = c['item'].rstrip('f') if c['item'] not in ('floor', 'ceil') else c['item']
    a = E.scalar(st, deref(E, st, args[0]), E.dest_ty(frame, t))
    if a[0] != 'F':
        return ('F', -INF, INF, True, None)
    if a[1] > a[2]:
        return a
    f = {'floor': _m.floor, 'ceil': _m.ceil, 'round': lambda x: _m.floor(x + 0.5) if x >= 0 else -_m.floor(-x + 0.5), 'trunc': _m.trunc}[item]

    def g(x):
        if x in (INF, -INF):
            return x
        if abs(x) >= 2.0 ** 52:
            return x
        return float(f(x))
    return E.reg(('F', g(a[1]), g(a[2]), a[3], A.mkterm(item, a[4] or E._fconst_term(a))))


@model(['sqrt', 'sqrtf'], pred=_libm_or_f)
def f_sqrt(E, st, frame, b, t, c, args):
    return _mono(E, st, frame, b, t, c, args, _m.sqrt, lo_dom=0.0, rng=(0.0, INF), name='sqrt')


@model(['to_radians', 'to_degrees'], pred=_float_self)
def f_torad(E, st, frame, b, t, c, args):
    k = _m.pi / 180.0 if c['item'] == 'to_radians' else 180.0 / _m.pi
    return _mono(E, st, frame, b, t, c, args, lambda x: x * k)


@model(['sin', 'cos', 'sinf', 'cosf'], pred=_libm_or_f)
def f_sincos(E, st, frame, b, t, c, args):
    a = E.scalar(st, deref(E, st, args[0]), E.dest_ty(frame, t))
    nan = a[0] != 'F' or a[3] or a[1] == -INF or a[2] == INF
    return E.reg(('F', -1.0, 1.0, nan, A.mkterm(c['item'], a[4]) if a[0] == 'F' else None))


@model(['atan2', 'atan2f'], pred=_libm_or_f)
def f_atan2(E, st, frame, b, t, c, args):
    y = E.scalar(st, deref(E, st, args[0]), E.dest_ty(frame, t))
    x = E.scalar(st, deref(E, st, args[1]), E.dest_ty(frame, t))
    nan = y[0] != 'F' or x[0] != 'F' or y[3] or x[3]
    lo, hi = -fup(_m.pi), fup(_m.pi)
    if y[0] == 'F' and y[1] <= y[2] and y[1] >= 0:
        lo = 0.0
    if y[0] == 'F' and y[1] <= y[2] and y[2] < 0:
        hi = 0.0
    return E.reg(('F', lo, hi, nan, A.mkterm('atan2', y[4] if y[0] == 'F' else None, x[4] if x[0] == 'F' else None)))


@model(['hypot', 'hypotf'], pred=_libm_or_f)
def f_hypot(E, st, frame, b, t, c, args):
    x = E.scalar(st, deref(E, st, args[0]), E.dest_ty(frame, t))
    y = E.scalar(st, deref(E, st, args[1]), E.dest_ty(frame, t))
    if x[0] != 'F' or y[0] != 'F':
        return ('F', 0.0, INF, True, None)
    nan = (x[3] or y[3])
    if x[1] > x[2] or y[1] > y[2]:
        return ('F', 0.0, INF, True, None)
    ax = (0.0 if x[1] <= 0 <= x[2] else min(abs(x[1]), abs(x[2])), max(abs(x[1]), abs(x[2])))
    ay = (0.0 if y[1] <= 0 <= y[2] else min(abs(y[1]), abs(y[2])), max(abs(y[1]), abs(y[2])))
    lo = fdown(fdown(_m.hypot(ax[0], ay[0])))
    hi = fup(fup(_m.hypot(ax[1], ay[1]))) if INF not in (ax[1], ay[1]) else INF
    return E.reg(('F', max(lo, 0.0), hi, nan, A.mkterm('hypot', x[4], y[4])))


@model(['rem_euclid'], pred=_float_self)
def f_rem_euclid(E, st, frame, b, t, c, args):
    a = E.scalar(st, args[0], E.dest_ty(frame, t))
    m = E.scalar(st, args[1], E.dest_ty(frame, t))
    if a[0] != 'F' or m[0] != 'F' or m[1] > m[2]:
        return ('F', -INF, INF, True, None)
    mm = max(abs(m[1]), abs(m[2]))
    nan = a[3] or m[3] or (m[1] <= 0 <= m[2]) or a[1] == -INF or a[2] == INF or a[1] > a[2]
    # closed upper bound: r + |m| can round to |m| for tiny negative r
    return E.reg(('F', 0.0, mm, nan, A.mkterm('rem_euclid', a[4], m[4] or E._fconst_term(m)) or T('o', E.site(frame, b, 're'))))


@model(['is_nan', 'is_finite', 'is_infinite', 'is_sign_negative', 'is_sign_positive'], pred=_float_self)
def f_pred(E, st, frame, b, t, c, args):
    a = E.scalar(st, args[0], arg_ty(E, frame, t, 0))
    if a[0] == 'F':
        if c['item'] == 'is_nan':
            if not a[3]:
                return const_int(0)
            if a[1] > a[2]:
                return const_int(1)
        if c['item'] == 'is_finite':
            if not a[3] and a[1] > -INF and a[2] < INF:
                return const_int(1)
            if a[4] is not None:
                return E.reg(mk_int(0, 1, 0, T('isfin', a[4])))
    return mk_int(0, 1, 0, T('o', E.site(frame, b, 'fp')))


@model(['min', 'max', 'powi', 'powf', 'exp', 'ln', 'log10', 'tan', 'atan', 'asin', 'acos', 'mul_add', 'signum',
        'copysign', 'clamp', 'fract', 'recip', 'log2', 'sin_cos', 'fmod', 'fmodf', 'tanf', 'expf', 'pow'], pred=_libm_or_f)
def f_misc(E, st, frame, b, t, c, args):
    dty = E.dest_ty(frame, t)
    if c['item'] in ('min', 'max'):
        a = E.scalar(st, args[0], dty)
        bb = E.scalar(st, args[1], dty)
        if a[0] == 'F' and bb[0] == 'F' and a[1] <= a[2] and bb[1] <= bb[2]:
            f = min if c['item'] == 'min' else max
            # IEEE min/max ignore a single NaN operand
            lo, hi = f(a[1], bb[1]), f(a[2], bb[2])
            if a[3]:
                lo, hi = min(lo, bb[1]), max(hi, bb[2])
            if bb[3]:
                lo, hi = min(lo, a[1]), max(hi, a[2])
            return ('F', lo, hi, a[3] and bb[3], None)
    return ('F', -INF, INF, True, None)


# ------------------------------------------------------------------------------------------
# sequences: Vec / String / slices / arrays / str

SEQ_SELF = ('std::vec::Vec', 'alloc::vec::Vec', '[T]', 'std::string::String', 'alloc::string::String', 'str', '[T; N]')


def _seq_self(c):
    rs = c.get('rself') or ''
    return rs.startswith(SEQ_SELF)


def seq_of(E, st, v, tyid=None):
    """-> (seq value, lvalue or None)"""
    v = E.expand(v)
    lv = None
    while v[0] == 'R':
        if v[1] is None:
            return E.expand(('T', tyid, None)), None
        lv = (v[1], v[2])
        E.pointee_init(st, v[1], tyid)
        v = E.expand(E.read_lv(st, lv, tyid))
    if v[0] == 'T' and tyid is not None and v[1] is None:
        v = E.expand(('T', tyid, v[2]))
    return v, lv


@model(['new'], rself=('std::vec::Vec', 'alloc::vec::Vec', 'std::string::String', 'alloc::string::String'))
def vec_new(E, st, frame, b, t, c, args):
    return ('S', const_int(0), BOT, ())


@model(['with_capacity'], rself=('std::vec::Vec', 'alloc::vec::Vec', 'std::string::String', 'alloc::string::String'))
def vec_with_cap(E, st, frame, b, t, c, args):
    return ('S', const_int(0), BOT, ())


@model(['len'], pred=_seq_self)
def seq_len(E, st, frame, b, t, c, args):
    v, _ = seq_of(E, st, args[0], pointee_ty(E, frame, t, 0))
    if v[0] == 'S':
        return st.resolve(v[1])
    return mk_int(0, U63)


@model(['is_empty'], pred=_seq_self)
def seq_is_empty(E, st, frame, b, t, c, args):
    v, _ = seq_of(E, st, args[0], pointee_ty(E, frame, t, 0))
    if v[0] == 'S':
        ln = st.resolve(v[1])
        if ln[1] > 0:
            return const_int(0)
        if ln[2] == 0:
            return const_int(1)
        return E.reg(mk_int(0, 1, 0, A.mkterm('Eq', ln[4], T('c', 0)) or T('o', E.site(frame, b, 'ie'))))
    return mk_int(0, 1)


@model(['as_slice', 'as_mut_slice', 'deref', 'deref_mut', 'as_ref', 'as_mut', 'borrow', 'as_str', 'as_bytes', 'as_mut_str'],
       pred=lambda c: _seq_self(c))
def seq_view(E, st, frame, b, t, c, args):
    r = E.expand(args[0])
    if r[0] == 'R':
        return r
    return E.expand(('T', E.dest_ty(frame, t), E.site(frame, b, 'sv')))


@model(['push'], rself=('std::vec::Vec', 'alloc::vec::Vec', 'std::string::String', 'alloc::string::String'))
def vec_push(E, st, frame, b, t, c, args):
    v, lv = seq_of(E, st, args[0], pointee_ty(E, frame, t, 0))
    if v[0] == 'S' and lv is not None:
        ln = st.resolve(v[1])
        is_string = 'String' in (c.get('rself') or '')
        if is_string:
            nl = mk_int(ln[1] + 1, min(ln[2] + 4, U63))
            nv = ('S', nl, join(v[2], mk_int(0, 255)), None)
        else:
            x = args[1]
            nl = E.reg(mk_int(ln[1] + 1, min(ln[2] + 1, U63), 0, A.mkterm('Add', ln[4], T('c', 1))))
            items = v[3] + (x,) if (v[3] is not None and len(v[3]) < 64 and ln[1] == ln[2]) else None
            el = x if (ln[2] == 0) else join(v[2], x)
            nv = ('S', nl, el, items)
        E.write_lv(st, lv, nv)
    return ('A', ())


@model(['pop'], rself=('std::vec::Vec', 'alloc::vec::Vec', 'std::string::String', 'alloc::string::String'))
def vec_pop(E, st, frame, b, t, c, args):
    v, lv = seq_of(E, st, args[0], pointee_ty(E, frame, t, 0))
    dty = E.dest_ty(frame, t)
    if v[0] == 'S' and lv is not None:
        ln = st.resolve(v[1])
        nl = mk_int(max(ln[1] - 1, 0), ln[2])
        E.write_lv(st, lv, ('S', nl, v[2], None))
        parts = []
        if ln[1] == 0:
            parts.append((0, ()))
        if ln[2] > 0:
            parts.append((1, (v[2],)))
        return ('E', None, tuple(parts))
    return E.expand(('T', dty, E.site(frame, b, 'pop')))


@model(['clear', 'truncate'], rself=('std::vec::Vec', 'alloc::vec::Vec', 'std::string::String', 'alloc::string::String'))
def vec_clear(E, st, frame, b, t, c, args):
    v, lv = seq_of(E, st, args[0], pointee_ty(E, frame, t, 0))
    if v[0] == 'S' and lv is not None:
        if c['item'] == 'clear':
            E.write_lv(st, lv, ('S', const_int(0), v[2], ()))
        else:
            ln = st.resolve(v[1])
            n = E.scalar(st, args[1], arg_ty(E, frame, t, 1))
            if 'String' in (c.get('rself') or ''):
                # String::truncate(n) panics when n < len and byte n is not a char boundary (seed C17-s11); the byte
                # contents of a String are not tracked, so only n == 0 or n >= len is safe
                safe = n[0] == 'I' and (n[2] == 0 or n[1] >= ln[2])
                oblig(E, frame, b, t, safe, 'String::truncate(%s) on a string of length %s: panics unless the new length is a char boundary'
                      % (A.show_val(n)[:40], A.show_val(ln)[:40]))
            hi = min(ln[2], n[2]) if n[0] == 'I' else ln[2]
            E.write_lv(st, lv, ('S', mk_int(min(ln[1], n[1] if n[0] == 'I' else 0), hi), v[2], None))
    return ('A', ())


@model(['extend_from_slice', 'push_str'], rself=('std::vec::Vec', 'alloc::vec::Vec', 'std::string::String', 'alloc::string::String'))
def vec_extend(E, st, frame, b, t, c, args):
    v, lv = seq_of(E, st, args[0], pointee_ty(E, frame, t, 0))
    s2, _ = seq_of(E, st, args[1], pointee_ty(E, frame, t, 1))
    if v[0] == 'S' and lv is not None:
        if s2[0] == 'S':
            l1, l2 = st.resolve(v[1]), st.resolve(s2[1])
            nl = E.reg(mk_int(l1[1] + l2[1], min(l1[2] + l2[2], U63), 0, A.mkterm('Add', l1[4], l2[4])))
            items = None
            if v[3] is not None and s2[3] is not None and len(v[3]) + len(s2[3]) <= 64 and l1[1] == l1[2] and l2[1] == l2[2]:
                items = v[3] + s2[3]
            el = s2[2] if l1[2] == 0 else join(v[2], s2[2])
            E.write_lv(st, lv, ('S', nl, el, items))
        else:
            E.write_lv(st, lv, ('S', mk_int(st.resolve(v[1])[1], U63), ('T', None, None), None))
    return ('A', ())


@model(['to_vec', 'to_owned', 'to_string', 'into_vec', 'into_boxed_slice', 'into_bytes', 'clone'],
       pred=lambda c: _seq_self(c) or ((c.get('trait') in ('std::borrow::ToOwned', 'std::string::ToString')) and (c.get('rself') or '') in ('str', '[T]')))
def seq_copy(E, st, frame, b, t, c, args):
    v, _ = seq_of(E, st, args[0], pointee_ty(E, frame, t, 0))
    if v[0] == 'S':
        return v
    return E.expand(('T', E.dest_ty(frame, t), E.site(frame, b, 'sc')))


def _index_obl(E, st, frame, b, t, seq, idx, what='index'):
    ln = st.resolve(seq[1]) if seq[0] == 'S' else mk_int(0, U63)
    ok = idx[0] == 'I' and idx[1] >= 0 and idx[2] < ln[1]
    if not ok and idx[0] == 'I' and idx[4] is not None and ln[4] is not None:
        ok = E.entails_lt(st, idx[4], ln[4])
    oblig(E, frame, b, t, ok, '%s out of bounds: index %s, len %s' % (what, show_val(idx), show_val(ln)))
    return ln


@raw_model(['index', 'index_mut'], pred=lambda c: c.get('trait') in ('std::ops::Index', 'std::ops::IndexMut') and c.get('rcrate') in ('core', 'alloc', 'std'))
def seq_index(E, frame, b, t, sts, c, quiet):
    out = []
    saved = E._acc
    E._acc = []
    ity = arg_ty(E, frame, t, 1)
    itn = E.types.get(ity)['s'] if ity is not None else ''
    mut = c['item'] == 'index_mut'
    for st in sts:
        args = E.arg_vals(st, frame, t)
        r = E.expand(args[0])
        seq, lv = seq_of(E, st, r, pointee_ty(E, frame, t, 0))
        if seq[0] != 'S':
            # HashMap / BTreeMap indexing etc.
            oblig(E, frame, b, t, False, 'Index::index on %s (not modelled)' % (c.get('rself') or '?'))
            E.write_dest(st, frame, t, E.expand(('T', E.dest_ty(frame, t), E.site(frame, b, 'ix'))))
            out.append(st)
            continue
        if itn == 'usize':
            idx = E.scalar(st, args[1], ity)
            ln = _index_obl(E, st, frame, b, t, seq, idx)
            if idx[0] == 'I':
                if idx[1] >= ln[2] and ln[2] < U63:
                    continue
                # continuing implies idx < len
                if idx[4] is not None:
                    E.refine_term(st, idx[4], idx[1], min(idx[2], ln[2] - 1))
                if ln[4] is not None:
                    E.refine_term(st, ln[4], max(ln[1], idx[1] + 1), ln[2])
            if lv is None:
                E.write_dest(st, frame, t, ('R', None, (), mut))
            elif idx[0] == 'I' and idx[1] == idx[2]:
                E.write_dest(st, frame, t, ('R', lv[0], lv[1] + (('i', idx[1]),), mut))
            else:
                E.write_dest(st, frame, t, ('R', lv[0], lv[1] + (('i*', idx if idx[0] == 'I' else None),), mut))
            out.append(st)
            continue
        if 'Range' in itn:
            rng = E.expand(args[1])
            ln = st.resolve(seq[1])
            fields = rng[1] if rng[0] == 'A' else ()
            lo = hi = None
            incl = 'RangeInclusive' in itn or 'RangeToInclusive' in itn
            usz = E.types.by_name('usize')
            if 'RangeFull' in itn:
                lo, hi = const_int(0), ln
            elif 'RangeFrom' in itn:
                lo, hi = E.scalar(st, fields[0], usz), ln
            elif 'RangeTo' in itn:
                lo, hi = const_int(0), E.scalar(st, fields[0], usz)
            elif len(fields) >= 2:
                lo, hi = E.scalar(st, fields[0], usz), E.scalar(st, fields[1], usz)
            if lo is None or lo[0] != 'I' or hi[0] != 'I':
                oblig(E, frame, b, t, False, 'range index with unknown bounds')
                nl = mk_int(0, ln[2])
                sub = ('S', nl, seq[2], None)
            else:
                if incl:
                    hi = mk_int(hi[1] + 1, hi[2] + 1)
                ok = lo[2] <= hi[1] and hi[2] <= ln[1]
                if not ok and hi is ln:
                    ok = lo[2] <= ln[1] or (lo[4] is not None and ln[4] is not None and E.entails_le(st, lo[4], ln[4]))
                oblig(E, frame, b, t, ok, 'slice range out of bounds: %s..%s of len %s' % (show_val(lo), show_val(hi), show_val(ln)))
                nl = mk_int(max(hi[1] - lo[2], 0), max(hi[2] - lo[1], 0))
                if hi is ln and lo[4] is not None and ln[4] is not None:
                    nl = E.reg(mk_int(nl[1], nl[2], 0, A.mkterm('Sub', ln[4], lo[4])))
                items = None
                if seq[3] is not None and lo[1] == lo[2] and hi[1] == hi[2] and hi[1] <= len(seq[3]):
                    items = seq[3][lo[1]:hi[1]]
                sub = ('S', nl, seq[2], items)
            cell = ('h', E.site(frame, b, 'sub'))
            st.cells[cell] = sub
            E.write_dest(st, frame, t, ('R', cell, (), mut))
            out.append(st)
            continue
        oblig(E, frame, b, t, False, 'Index::index with index type %s (not modelled)' % itn)
        E.write_dest(st, frame, t, E.expand(('T', E.dest_ty(frame, t), E.site(frame, b, 'ix'))))
        out.append(st)
    flush_oblig(E, frame, b, t, quiet)
    E._acc = saved
    return out


@model(['get', 'first', 'last', 'get_mut', 'first_mut', 'last_mut'], pred=_seq_self)
def seq_get(E, st, frame, b, t, c, args):
    seq, lv = seq_of(E, st, args[0], pointee_ty(E, frame, t, 0))
    dty = E.dest_ty(frame, t)
    if seq[0] != 'S' or lv is None:
        return E.expand(('T', dty, E.site(frame, b, 'get')))
    ln = st.resolve(seq[1])
    mut = c['item'].endswith('_mut')
    if c['item'].startswith('get'):
        ity = arg_ty(E, frame, t, 1)
        if E.types.get(ity)['s'] != 'usize':
            return E.expand(('T', dty, E.site(frame, b, 'get')))
        idx = E.scalar(st, args[1], ity)
    elif c['item'].startswith('first'):
        idx = const_int(0)
    else:
        idx = mk_int(max(ln[1] - 1, 0), max(ln[2] - 1, 0))
    parts = []
    if idx[0] != 'I' or idx[2] >= ln[1]:
        parts.append((0, ()))
    if idx[0] != 'I' or idx[1] < ln[2]:
        if idx[0] == 'I' and idx[1] == idx[2]:
            ref = ('R', lv[0], lv[1] + (('i', idx[1]),), mut)
        else:
            ref = ('R', lv[0], lv[1] + (('i*', idx if idx[0] == 'I' else None),), mut)
        parts.append((1, (ref,)))
    return ('E', T('e', E.site(frame, b, 'get')), tuple(parts))


@model(['contains', 'starts_with', 'ends_with', 'eq_ignore_ascii_case', 'is_char_boundary'], pred=_seq_self)
def seq_pred(E, st, frame, b, t, c, args):
    return mk_int(0, 1, 0, T('o', E.site(frame, b, 'sp')))


# ------------------------------------------------------------------------------------------
# ranges / iteration

RANGE = ('std::ops::Range<', 'core::ops::Range<', 'core::ops::range::Range<')


@model(['into_iter'], trait='std::iter::IntoIterator', pred=lambda c: (c.get('rself') or '') == 'I')
def into_iter_identity(E, st, frame, b, t, c, args):
    # blanket `impl<I: Iterator> IntoIterator for I`: identity
    return args[0]


@raw_model(['next'], trait='std::iter::Iterator', pred=lambda c: (c.get('rself') or '').startswith(('std::ops::Range<', 'std::ops::RangeInclusive<')))
def range_next(E, frame, b, t, sts, c, quiet):
    out = []
    incl = 'RangeInclusive' in (c.get('rself') or '')
    for st in sts:
        args = E.arg_vals(st, frame, t)
        r = E.expand(args[0])
        pt = pointee_ty(E, frame, t, 0)
        if r[0] != 'R' or r[1] is None:
            E.write_dest(st, frame, t, E.expand(('T', E.dest_ty(frame, t), E.site(frame, b, 'nx'))))
            out.append(st)
            continue
        lv = (r[1], r[2])
        rng = E.expand(E.read_lv(st, lv, pt))
        if rng[0] != 'A' or len(rng[1]) < 2:
            E.write_dest(st, frame, t, E.expand(('T', E.dest_ty(frame, t), E.site(frame, b, 'nx'))))
            out.append(st)
            continue
        ety = E.types.get(pt)['args'][0] if E.types.get(pt).get('args') else None
        start = E.scalar(st, rng[1][0], ety)
        end = E.scalar(st, rng[1][1], ety)
        if start[0] != 'I' or end[0] != 'I':
            E.write_dest(st, frame, t, E.expand(('T', E.dest_ty(frame, t), E.site(frame, b, 'nx'))))
            out.append(st)
            continue
        exhausted = None
        if incl and len(rng[1]) > 2:
            exhausted = E.scalar(st, rng[1][2], E.types.by_name('bool'))
        lim = end[2] if incl else end[2] - 1
        # Some(v): start <= lim
        if start[1] <= lim and not (exhausted is not None and exhausted[0] == 'I' and exhausted[1] == 1):
            s2 = st.copy()
            v = E.reg(mk_int(start[1], min(start[2], lim), 0, start[4] if start[4] is not None else T('o', E.site(frame, b, 'it'))))
            feasible = True
            if start[4] is not None and end[4] is not None:
                feasible = E.assume_cmp(s2, 'Le' if incl else 'Lt', start[4], end[4])
                v = s2.resolve(v)
            if feasible and v != BOT:
                nstart = E.reg(mk_int(v[1] + 1, v[2] + 1, 0, A.mkterm('Add', v[4], T('c', 1))))
                if incl:
                    # after yielding `end` the range is marked exhausted instead of incrementing
                    nstart = mk_int(v[1] + 1 if v[1] < lim else v[1], max(v[2] + 1 if v[2] < lim else v[2], v[1]))
                    exh = const_int(1) if v[1] >= lim else (const_int(0) if v[2] < lim else mk_int(0, 1))
                    nr = ('A', (nstart, rng[1][1], exh) + tuple(rng[1][3:]))
                else:
                    nr = ('A', (nstart, rng[1][1]) + tuple(rng[1][2:]))
                E.write_lv(s2, lv, nr)
                E.write_dest(s2, frame, t, ('E', None, ((1, (v,)),)))
                out.append(s2)
        # None: start >= end
        none_possible = (start[2] > lim) or (exhausted is not None and exhausted[0] == 'I' and exhausted[2] == 1) or incl
        if none_possible:
            s3 = st.copy()
            feasible = True
            if start[4] is not None and end[4] is not None and not incl:
                feasible = E.assume_cmp(s3, 'Ge', start[4], end[4])
            if feasible:
                E.write_dest(s3, frame, t, ('E', None, ((0, ()),)))
                out.append(s3)
    return out


@model(['contains'], pred=lambda c: (c.get('rself') or '').startswith(('std::ops::Range<', 'std::ops::RangeInclusive<')))
def range_contains(E, st, frame, b, t, c, args):
    pt = pointee_ty(E, frame, t, 0)
    rng = deref(E, st, args[0], pt)
    incl = 'RangeInclusive' in (c.get('rself') or '')
    ity = pointee_ty(E, frame, t, 1)
    x = E.scalar(st, deref(E, st, args[1], ity), ity)
    if rng[0] != 'A' or len(rng[1]) < 2 or x[0] not in ('I', 'F'):
        return mk_int(0, 1, 0, T('o', E.site(frame, b, 'rc')))
    lo = E.scalar(st, rng[1][0], ity)
    hi = E.scalar(st, rng[1][1], ity)
    if lo[0] != x[0] or hi[0] != x[0]:
        return mk_int(0, 1, 0, T('o', E.site(frame, b, 'rc')))
    xt = x[4] or (E._fconst_term(x) if x[0] == 'F' else None)
    lt = lo[4] or (E._fconst_term(lo) if lo[0] == 'F' else None)
    ht = hi[4] or (E._fconst_term(hi) if hi[0] == 'F' else None)
    term = A.mkterm('inrange', xt, lt, ht, T('c', 1 if incl else 0))
    nanx = x[0] == 'F' and (x[3] or x[1] > x[2])
    if not nanx:
        d1 = A.cmp_decide('Ge', x, lo)
        d2 = A.cmp_decide('Le' if incl else 'Lt', x, hi)
        if d1 is False or d2 is False:
            return const_int(0)
        if d1 and d2:
            return const_int(1)
    elif x[1] > x[2]:
        return const_int(0)
    return E.reg(mk_int(0, 1, 0, term or T('o', E.site(frame, b, 'rc'))))


@model(['new'], pred=lambda c: (c.get('rself') or '').startswith('std::ops::RangeInclusive<'))
def range_incl_new(E, st, frame, b, t, c, args):
    return ('A', (args[0], args[1], const_int(0)))


# ------------------------------------------------------------------------------------------
# deku

def _reader_fields(E, st, r, tyid):
    """-> (lvalue, reader value as 'A' of (inner, leftover, last, bits_read)) or (lv, None)"""
    r = E.expand(r)
    if r[0] != 'R' or r[1] is None:
        return None, None
    lv = (r[1], r[2])
    E.pointee_init(st, r[1], tyid)
    v = E.expand(E.read_lv(st, lv, tyid))
    if v[0] != 'A' or len(v[1]) != 4:
        return lv, None
    return lv, v


def _stream(E, inner):
    if inner[0] == 'O' and inner[1] == 'stream':
        return inner[2]
    return None


def _stream_len(E, st, inner):
    """'I' length value of the byte slice behind a stream object (or None)"""
    s = _stream(E, inner)
    if s is None or s[2] is None:
        return None
    v = s[2]
    for _ in range(6):
        pt = None
        if v[0] == 'T' and v[1] is not None:
            pt = E.types.pointee(E.types.get(v[1]))
        v = E.expand(v)
        if v[0] == 'R':
            if v[1] is None:
                return None
            if pt is not None:
                E.pointee_init(st, v[1], pt)
            v = E.read_lv(st, (v[1], v[2]), pt)
        elif v[0] == 'O' and v[1] == 'cursor':
            v = v[2][0]
        elif v[0] == 'S':
            ln = st.resolve(v[1])
            return ln if ln != BOT and ln[0] == 'I' else None
        else:
            return None
    return None


def _stream_item_term(E, st, inner, idx):
    """term of byte idx of the buffer behind a stream, if the buffer is known element-wise"""
    s = _stream(E, inner)
    if s is None or s[2] is None:
        return None
    v = s[2]
    for _ in range(6):
        pt = None
        if v[0] == 'T' and v[1] is not None:
            pt = E.types.pointee(E.types.get(v[1]))
        v = E.expand(v)
        if v[0] == 'R':
            if v[1] is None:
                return None
            v = E.read_lv(st, (v[1], v[2]), pt)
        elif v[0] == 'O' and v[1] == 'cursor':
            v = v[2][0]
        elif v[0] == 'S':
            if v[3] is not None and idx < len(v[3]) and v[3][idx][0] == 'I':
                t = v[3][idx][4]
                if t is not None and t[0] != 'c':
                    return t
            return None
        else:
            return None
    return None


def _ok_needs_len(E, st, inner_before, pos, n):
    """a successful read of n bits at pos implies len(source) >= ceil((pos+n)/8); refines st (the
    Ok state).  Returns (ok feasible, short-read error feasible)."""
    if pos is None:
        return True, True
    ln = _stream_len(E, st, inner_before)
    if ln is None:
        return True, True
    need = (pos[1] + n[1] + 7) // 8
    need_hi = (pos[2] + n[2] + 7) // 8
    err = ln[1] < need_hi
    if ln[2] < need:
        return False, True
    if ln[4] is not None and ln[1] < need:
        return E.refine_term(st, ln[4], need, ln[2]), err
    return True, err


def _advance(E, st, frame, b, lv, rd, n):
    """reader consumed n (an 'I') bits: returns (stream id, start position 'I' or None)"""
    inner, leftover, last, bits_read = rd[1]
    usz = E.types.by_name('usize')
    last = E.scalar(st, last, usz)
    bits_read = E.scalar(st, bits_read, usz)
    s = _stream(E, inner)
    sid, pos = None, None
    if s is not None:
        sid, pos, src = s
        npos = mk_int(pos[1] + n[1], pos[2] + n[2]) if pos is not None else None
        inner = ('O', 'stream', (sid, npos, src))

    def add(x):
        if x[0] != 'I':
            return mk_int(0, U63)
        return E.reg(mk_int(x[1] + n[1], min(x[2] + n[2], U63), 0, A.mkterm('Add', x[4], n[4])))
    E.write_lv(st, lv, ('A', (inner, ('T', None, None), add(last), add(bits_read))))
    return sid, pos


def _bitsize_from_ctx(E, st, frame, t):
    """bit size requested through the ctx argument, or None"""
    if len(t['args']) < 2:
        return None
    cty = arg_ty(E, frame, t, 1)
    if cty is None:
        return None
    ty = E.types.get(cty)
    v = E.expand(E.operand(st, frame, t['args'][1]))

    def from_val(ty, v):
        if ty['k'] == 'adt' and ty['name'] == 'deku::ctx::BitSize':
            v = E.expand(v)
            if v[0] == 'A' and v[1]:
                n = E.scalar(st, v[1][0], E.types.by_name('usize'))
                return n if n[0] == 'I' else mk_int(0, 128)
            return mk_int(0, 128)
        if ty['k'] == 'adt' and ty['name'] == 'deku::ctx::ByteSize':
            v = E.expand(v)
            if v[0] == 'A' and v[1]:
                n = E.scalar(st, v[1][0], E.types.by_name('usize'))
                if n[0] == 'I':
                    return mk_int(n[1] * 8, n[2] * 8)
            return mk_int(0, 128)
        if ty['k'] == 'tuple':
            v = E.expand(v)
            for i, et in enumerate(ty['elems']):
                sub = v[1][i] if v[0] == 'A' and i < len(v[1]) else ('T', et, None)
                r = from_val(E.types.get(et), sub)
                if r is not None:
                    return r
        return None
    return from_val(ty, v)


PRIMS = {'u8': (8, False), 'u16': (16, False), 'u32': (32, False), 'u64': (64, False), 'u128': (128, False), 'usize': (64, False),
         'i8': (8, True), 'i16': (16, True), 'i32': (32, True), 'i64': (64, True), 'i128': (128, True), 'isize': (64, True), 'bool': (8, False)}


@model(['from_reader_with_ctx'], trait='deku::DekuReader', pred=lambda c: c.get('rcrate') == 'deku' and (c.get('rself') or '') in PRIMS)
def deku_prim(E, st, frame, b, t, c, args):
    rs = c['rself']
    width, signed = PRIMS[rs]
    n = _bitsize_from_ctx(E, st, frame, t)
    if n is None:
        n = const_int(width)
    lv, rd = _reader_fields(E, st, args[0], pointee_ty(E, frame, t, 0))
    dty = E.dest_ty(frame, t)
    rty = E.types.get(dty)
    erty = rty['variants'][1]['fields'][0].get('ty')
    site = E.site(frame, b, 'rd')
    sid, pos = None, None
    if rd is not None:
        sid, pos = _advance(E, st, frame, b, lv, rd, n)
    E.layout_event(frame, b, t, c, sid, pos, n, rs)
    nb = min(n[2], width)
    if rs == 'bool':
        val = mk_int(0, 1)
    elif signed:
        val = mk_int(-(1 << (nb - 1)) if nb > 0 else 0, (1 << (nb - 1)) - 1 if nb > 0 else 0)
    else:
        val = mk_int(0, (1 << nb) - 1)
    if E.bits_override is not None and pos is not None and pos[1] == pos[2] and n[1] == n[2]:
        forced = E.bits_override(pos[1], n[1])
        if forced is not None:
            # the analysis fixes this part of the stream (slice on the bits of one field)
            val = const_int(forced)
    if sid is not None and pos is not None and pos[1] == pos[2] and n[1] == n[2] and not is_const(val):
        term = T('bits', sid, pos[1], n[1], rs)
        # the top n bits of a byte whose own term is known (the stream's source is a buffer with
        # element-wise content): the value is that byte shifted, so that it correlates with direct
        # uses of the byte (`remaining_bytes[0] >> 3`)
        if rd is not None and not signed and rs != 'bool' and pos[1] % 8 == 0 and 0 < n[1] <= 8:
            bt = _stream_item_term(E, st, rd[1][0], pos[1] // 8)
            if bt is not None:
                term = bt if n[1] == 8 else T('Shr', bt, T('c', 8 - n[1]))
    else:
        term = T('o', site) if not is_const(val) else val[4]
    val = E.reg((val[0], val[1], val[2], val[3], term))
    out = []
    s_err = st.copy()
    okf, errf = (True, True) if rd is None else _ok_needs_len(E, st, rd[1][0], pos, n)
    if n[1] <= width and okf:
        out.append((st, ('E', None, ((0, (val,)),))))
    if errf or n[2] > width:
        out.append((s_err, ('E', None, ((1, (('T', erty, None),)),))))
    return out


@model(['borrow', 'borrow_mut'], trait=('std::borrow::Borrow', 'std::borrow::BorrowMut'),
       pred=lambda c: c.get('rcrate') == 'core' and (c.get('rself') or '') in ('T',) + tuple(PRIMS))
def borrow_identity(E, st, frame, b, t, c, args):
    return args[0]            # impl<T> Borrow<T> for T


@model(['new_count'], pred=lambda c: (c.get('rself') or '').startswith('deku::ctx::Limit') and c.get('rcrate') == 'deku')
def deku_limit_count(E, st, frame, b, t, c, args):
    return ('E', None, ((0, (args[0],)),))       # Limit::Count(n)


def _deku_bulk_pred(c):
    rs = c.get('rself') or ''
    return c.get('rcrate') == 'deku' and (rs in ('[T; N]', 'std::vec::Vec<T>', 'f64', 'f32') or rs.startswith('['))


@model(['from_reader_with_ctx'], trait='deku::DekuReader', pred=_deku_bulk_pred)
def deku_bulk(E, st, frame, b, t, c, args):
    """byte arrays, Vec<u8> with a count limit, floats: consume a known number of bits; can only
    fail on a short read"""
    dty = E.dest_ty(frame, t)
    rty = E.types.get(dty)
    okty = rty['variants'][0]['fields'][0].get('ty')
    erty = rty['variants'][1]['fields'][0].get('ty')
    oty = E.types.get(okty) if okty is not None else None
    n = None
    count = None
    if oty is not None and oty['k'] == 'array' and oty.get('len') is not None and E.types.get(oty['elem'])['k'] in ('uint', 'int'):
        n = const_int(oty['len'] * E.types.get(oty['elem'])['bits'])
        count = oty['len']
    elif oty is not None and oty['k'] == 'float':
        n = const_int(oty['bits'])
    elif oty is not None and E.types.is_seq_adt(oty) and len(args) > 1:
        ctx = E.expand(args[1])
        lim = E.expand(ctx[1][0]) if ctx[0] == 'A' and ctx[1] else ctx
        if lim[0] == 'E':
            vs = dict(st.resolve(lim)[2]) if st.resolve(lim) != BOT else {}
            lty = E.types.get(E.operand_ty(frame, t['args'][1]))
            ltid = lty['elems'][0] if lty['k'] == 'tuple' else None
            names = [v['name'] for v in E.types.get(ltid)['variants']] if ltid is not None else []
            if len(vs) == 1 and names and names[list(vs)[0]] == 'Count':
                cv = E.scalar(st, list(vs.values())[0][0], E.types.by_name('usize'))
                ety = E.types.seq_elem(oty)
                if cv[0] == 'I' and ety is not None and E.types.get(ety)['k'] in ('uint', 'int'):
                    bits = E.types.get(ety)['bits']
                    n = mk_int(cv[1] * bits, cv[2] * bits)
                    count = cv[1] if cv[1] == cv[2] else None
    lv, rd = _reader_fields(E, st, args[0], pointee_ty(E, frame, t, 0))
    site = E.site(frame, b, 'rdb')
    if n is None:
        if rd is not None:
            inner = rd[1][0]
            s_ = _stream(E, inner)
            if s_ is not None:
                inner = ('O', 'stream', (s_[0], None, s_[2]))
            E.write_lv(st, lv, ('A', (inner, ('T', None, None), mk_int(0, U63), mk_int(0, U63))))
        return ('E', T('e', site), ((0, (E.expand(('T', okty, site)),)), (1, (('T', erty, None),))))
    sid, pos = None, None
    if rd is not None:
        sid, pos = _advance(E, st, frame, b, lv, rd, n)
    E.layout_event(frame, b, t, c, sid, pos, n, c.get('rself'))
    if oty['k'] == 'float':
        val = ('F', -INF, INF, True, T('o', site))
    else:
        el = mk_int(0, 255) if E.types.get(E.types.seq_elem(oty))['bits'] == 8 else E.expand(('T', E.types.seq_elem(oty), None))
        items = None
        if count is not None and count <= 64:
            its = []
            for i in range(count):
                if sid is not None and pos is not None and pos[1] == pos[2] and E.types.get(E.types.seq_elem(oty))['bits'] == 8:
                    its.append(E.reg(mk_int(0, 255, 0, T('bits', sid, pos[1] + 8 * i, 8, 'u8'))))
                else:
                    its.append(el)
            items = tuple(its)
        ln = const_int(count) if count is not None else mk_int(n[1] // 8, n[2] // 8)
        val = ('S', ln, el, items)
    out = []
    s_err = st.copy()
    okf, errf = (True, True) if rd is None else _ok_needs_len(E, st, rd[1][0], pos, n)
    if okf:
        out.append((st, ('E', None, ((0, (val,)),))))
    if errf:
        out.append((s_err, ('E', None, ((1, (('T', erty, None),)),))))
    return out


@model(['new'], rself='deku::prelude::Reader', pred=lambda c: c.get('rcrate') == 'deku')
def deku_reader_new(E, st, frame, b, t, c, args):
    site = E.site(frame, b, 'stream')
    src = E.expand(args[0])
    return ('A', (('O', 'stream', (site, const_int(0), src if src[0] == 'R' else None)), ('T', None, None), const_int(0), const_int(0)))


@model(['read_bits', 'skip_bits'], rself='deku::prelude::Reader', pred=lambda c: c.get('rcrate') == 'deku')
def deku_read_bits(E, st, frame, b, t, c, args):
    usz = E.types.by_name('usize')
    n = E.scalar(st, args[1], usz)
    if n[0] != 'I':
        n = mk_int(0, U63)
    lv, rd = _reader_fields(E, st, args[0], pointee_ty(E, frame, t, 0))
    dty = E.dest_ty(frame, t)
    rty = E.types.get(dty)
    erty = rty['variants'][1]['fields'][0].get('ty')
    site = E.site(frame, b, 'rb')
    sid, pos = None, None
    if rd is not None:
        sid, pos = _advance(E, st, frame, b, lv, rd, n)
    E.layout_event(frame, b, t, c, sid, pos, n, c['item'])
    s_err = st.copy()
    out = []
    okf, errf = (True, True) if rd is None else _ok_needs_len(E, st, rd[1][0], pos, n)
    if okf:
        if c['item'] == 'skip_bits':
            okv = ('A', ())
        else:
            inner = []
            if n[1] == 0:
                inner.append((0, ()))
            if n[2] > 0:
                inner.append((1, (('O', 'bitvec', (mk_int(max(n[1], 1), n[2]), sid, pos)),)))
            okv = ('E', T('e', (site, 'opt')), tuple(inner))
        out.append((st, ('E', None, ((0, (okv,)),))))
    if errf:
        out.append((s_err, ('E', None, ((1, (('T', erty, None),)),))))
    return out


@model(['read_bytes'], rself='deku::prelude::Reader', pred=lambda c: c.get('rcrate') == 'deku')
def deku_read_bytes(E, st, frame, b, t, c, args):
    """Reader::read_bytes(amt, buf): consumes amt * 8 bits (as bytes or, unaligned, as bits), fills buf[..amt]"""
    usz = E.types.by_name('usize')
    amt = E.scalar(st, args[1], usz)
    if amt[0] != 'I':
        amt = mk_int(0, U63)
    n = mk_int(amt[1] * 8, min(amt[2] * 8, U63))
    seq, blv = seq_of(E, st, args[2], pointee_ty(E, frame, t, 2))
    blen = seq[1] if seq[0] == 'S' else None
    ok = blen is not None and blen[0] == 'I' and (amt[2] <= blen[1] or (amt[4] is not None and blen[4] is not None and E.entails_le(st, amt[4], blen[4])))
    oblig(E, frame, b, t, ok, 'read_bytes: buf[..amt] needs amt <= buf.len()')
    lv, rd = _reader_fields(E, st, args[0], pointee_ty(E, frame, t, 0))
    dty = E.dest_ty(frame, t)
    rty = E.types.get(dty)
    okty = rty['variants'][0]['fields'][0].get('ty')
    erty = rty['variants'][1]['fields'][0].get('ty')
    site = E.site(frame, b, 'rby')
    sid, pos = None, None
    if rd is not None:
        sid, pos = _advance(E, st, frame, b, lv, rd, n)
    E.layout_event(frame, b, t, c, sid, pos, n, 'read_bytes')
    if blv is not None and seq[0] == 'S':
        E.write_lv(st, blv, ('S', seq[1], mk_int(0, 255), None))
    s_err = st.copy()
    out = []
    okf, errf = (True, True) if rd is None else _ok_needs_len(E, st, rd[1][0], pos, n)
    if okf:
        out.append((st, ('E', None, ((0, (E.expand(('T', okty, site)),)),))))
    if errf:
        out.append((s_err, ('E', None, ((1, (('T', erty, None),)),))))
    return out


@model(['into_vec'], pred=lambda c: 'BitVec' in (c.get('rself') or '') or 'BitVec' in (c.get('rname') or ''))
def bitvec_into_vec(E, st, frame, b, t, c, args):
    v = args[0]
    if v[0] == 'O' and v[1] == 'bitvec':
        n, sid, pos = v[2]
        lo, hi = (n[1] + 7) // 8, (n[2] + 7) // 8
        items = None
        if lo == hi and hi <= 64:
            site = E.site(frame, b, 'iv')
            its = []
            for i in range(hi):
                if sid is not None and pos is not None and pos[1] == pos[2]:
                    term = T('bits', sid, pos[1] + 8 * i, 8, 'u8')
                else:
                    term = T('o', (site, i))
                its.append(E.reg(mk_int(0, 255, 0, term)))
            items = tuple(its)
        return ('S', mk_int(lo, hi), mk_int(0, 255), items)
    return ('S', mk_int(0, U63), mk_int(0, 255), None)


@model(['seek_last_read'], rself='deku::prelude::Reader', pred=lambda c: c.get('rcrate') == 'deku')
def deku_seek_last(E, st, frame, b, t, c, args):
    lv, rd = _reader_fields(E, st, args[0], pointee_ty(E, frame, t, 0))
    dty = E.dest_ty(frame, t)
    site = E.site(frame, b, 'slr')
    if rd is not None:
        inner, leftover, last, bits_read = rd[1]
        usz = E.types.by_name('usize')
        last = E.scalar(st, last, usz)
        bits_read = E.scalar(st, bits_read, usz)
        s = _stream(E, inner)
        if s is not None and s[1] is not None and last[0] == 'I':
            sid, pos, src = s
            if pos[1] == pos[2] and last[1] == last[2]:
                np_ = 8 * ((pos[1] + 7) // 8 - (last[1] + 7) // 8)
                npos = const_int(max(np_, 0))
            else:
                npos = mk_int(0, pos[2])
            inner = ('O', 'stream', (sid, npos, src))
        elif s is not None:
            inner = ('O', 'stream', (s[0], None, s[2]))
        if bits_read[0] == 'I' and last[0] == 'I':
            ok = bits_read[1] >= last[2]
            oblig(E, frame, b, t, ok, 'bits_read -= last_bits_read_amt may underflow')
            nb = mk_int(max(bits_read[1] - last[2], 0), max(bits_read[2] - last[1], 0))
        else:
            nb = mk_int(0, U63)
        E.write_lv(st, lv, ('A', (inner, ('T', None, None), last, nb)))
    rty = E.types.get(dty)
    erty = rty['variants'][1]['fields'][0].get('ty')
    return ('E', T('e', site), ((0, (('A', ()),)), (1, (('T', erty, None),))))


@model(['new'], rself=('std::io::Cursor', 'deku::no_std_io::Cursor', 'no_std_io::io::Cursor'))
def cursor_new(E, st, frame, b, t, c, args):
    return ('O', 'cursor', (args[0],))


# ------------------------------------------------------------------------------------------
# formatting: arguments are evaluated (Display/Debug impls of workspace types are analysed)

FMT_TRAITS = {'new_display': 'std::fmt::Display', 'new_debug': 'std::fmt::Debug', 'new_lower_hex': 'std::fmt::LowerHex',
              'new_upper_hex': 'std::fmt::UpperHex', 'new_lower_exp': 'std::fmt::LowerExp', 'new_binary': 'std::fmt::Binary',
              'new_octal': 'std::fmt::Octal', 'new_upper_exp': 'std::fmt::UpperExp', 'new_pointer': 'std::fmt::Pointer'}


def find_impl(E, trait, self_name):
    key = (trait, self_name)
    r = E._impl_cache.get(key)
    if r is None:
        r = []
        for bd in E.prog.bodies.values():
            im = bd.get('impl')
            if im and im.get('trait') == trait and bd['kind'] == 'fn':
                if im['self'] == self_name:
                    r.append(bd)
        E._impl_cache[key] = r
    return r


def type_display_candidates(E, tyid):
    """names under which a type's impl may be recorded (local paths are printed without crate)"""
    ty = E.types.get(tyid)
    while ty['k'] == 'ref':
        ty = E.types.get(ty['to'])
    s = ty['s']
    out = [s]
    for cr in ('rs1090::', 'jet1090::', 'decode1090::'):
        if s.startswith(cr):
            out.append(s[len(cr):])
    return ty, out


@raw_model(list(FMT_TRAITS), rself='core::fmt::rt::Argument')
def fmt_argument(E, frame, b, t, sts, c, quiet):
    trait = FMT_TRAITS[c['item']]
    targ = c.get('rtargs') or c.get('targs') or []
    out = sts
    if targ:
        ty, names = type_display_candidates(E, targ[0])
        bodies = []
        for n in names:
            bodies = find_impl(E, trait, n)
            if bodies:
                break
        if bodies:
            body = bodies[0]
            fmt_ty = body['locals'][2]

            def mk(s2):
                v = E.operand(s2, frame, t['args'][0])
                # strip extra reference levels (`&&T`)
                want_ref = E.types.get(body['locals'][1])
                aty = E.types.get(arg_ty(E, frame, t, 0))
                while aty['k'] == 'ref' and E.types.get(aty['to'])['k'] == 'ref':
                    v = deref_once(E, s2, v, aty['to'])
                    aty = E.types.get(aty['to'])
                return [v, E.expand(('T', fmt_ty, E.site(frame, b, 'fmt')))]
            fake_t = {'dest': {'l': 0, 'p': []}, 'args': [], 'sp': t.get('sp')}
            out = E.inline(frame, b, fake_t, sts, body, None, quiet, args_override=mk, discard=True)
        elif ty['k'] == 'adt' and any(ty['s'].startswith(w) or ('::' not in ty['s'].split('<')[0]) for w in ('rs1090', 'jet1090', 'decode1090', 'decode::', 'data::', 'source::')):
            if not quiet:
                E.record(frame, b, frame.info.ordinals.get(b, ('call:?', 0)), False,
                         'cannot find %s impl for %s' % (trait, ty['s']), len(sts), sp=t.get('sp'))
    dty = E.dest_ty(frame, t)
    res = []
    for st in out:
        E.write_dest(st, frame, t, ('T', dty, None))
        res.append(st)
    return res


def deref_once(E, st, v, tyid):
    v = E.expand(v)
    if v[0] == 'R' and v[1] is not None:
        return E.read_lv(st, (v[1], v[2]), tyid)
    return ('T', tyid, None)


@raw_model(['to_string'], trait='std::string::ToString', pred=lambda c: c.get('rcrate') == 'alloc')
def to_string(E, frame, b, t, sts, c, quiet):
    targ = c.get('rtargs') or c.get('targs') or []
    out = sts
    if targ:
        tt = E.types.get(targ[0])
        if tt['k'] in ('int', 'uint'):
            res = []
            for st in sts:
                v = scalar_of(E, st, E.operand(st, frame, t['args'][0]), targ[0])

                def digits(x):
                    return len(str(abs(x))) + (1 if x < 0 else 0)
                if v[0] == 'I':
                    lo, hi = v[1], v[2]
                    dl = 1 if lo <= 0 <= hi else min(digits(lo), digits(hi))
                    dh = max(digits(lo), digits(hi))
                else:
                    dl, dh = 1, 40
                E.write_dest(st, frame, t, ('S', mk_int(dl, dh), mk_int(0x2d, 0x39), None))
                res.append(st)
            return res
        if tt['k'] == 'str' or E.types.is_seq_adt(tt):
            # Display for str / String writes the bytes unchanged
            res = []
            for st in sts:
                v, _ = seq_of(E, st, E.operand(st, frame, t['args'][0]), targ[0])
                if v[0] == 'S':
                    E.write_dest(st, frame, t, ('S', st.resolve(v[1]), v[2], v[3]))
                else:
                    E.write_dest(st, frame, t, ('S', mk_int(0, U63), mk_int(0, 255), None))
                res.append(st)
            return res
    if targ:
        ty, names = type_display_candidates(E, targ[0])
        bodies = []
        for n in names:
            bodies = find_impl(E, 'std::fmt::Display', n)
            if bodies:
                break
        if bodies:
            body = bodies[0]
            fmt_ty = body['locals'][2]

            def mk(s2):
                return [E.operand(s2, frame, t['args'][0]), E.expand(('T', fmt_ty, E.site(frame, b, 'fmt')))]
            fake_t = {'dest': {'l': 0, 'p': []}, 'args': [], 'sp': t.get('sp')}
            out = E.inline(frame, b, fake_t, sts, body, None, quiet, args_override=mk, discard=True)
    dty = E.dest_ty(frame, t)
    res = []
    for st in out:
        E.write_dest(st, frame, t, ('S', mk_int(0, U63), mk_int(0, 255), None))
        res.append(st)
    return res


# ------------------------------------------------------------------------------------------
# iterators over sequences with closures (element abstraction)

def _elem_of_seq(E, st, seq):
    if seq[0] != 'S':
        return ('T', None, None), mk_int(0, U63)
    ln = st.resolve(seq[1])
    el = seq[2]
    if seq[3] is not None and seq[3]:
        el = BOT
        for it in seq[3]:
            el = join(el, E.deep_resolve(st, it))
    return el, ln


@model(['into_iter', 'iter', 'iter_mut', 'chars', 'bytes', 'drain'], pred=lambda c: _seq_self(c) or (c.get('trait') == 'std::iter::IntoIterator' and (c.get('rself') or '').startswith(SEQ_SELF + ('&',))))
def seq_iter(E, st, frame, b, t, c, args):
    seq, lv = seq_of(E, st, args[0], pointee_ty(E, frame, t, 0))
    if seq[0] != 'S':
        return ('T', E.dest_ty(frame, t), E.site(frame, b, 'it'))
    el, ln = _elem_of_seq(E, st, seq)
    if c['item'] == 'chars':
        # number of chars = number of bytes for ASCII content, else between bytes/4 and bytes
        ascii_ = seq[3] is not None and all(is_const(x) and x[1] < 128 for x in seq[3])
        if not ascii_ and not (el[0] == 'I' and el[2] < 128):
            ln = mk_int((ln[1] + 3) // 4, ln[2])
    by_ref = c['item'] in ('iter', 'iter_mut') or (E.expand(args[0])[0] == 'R' and c['item'] == 'into_iter')
    items = None
    if c['item'] == 'chars' and seq[3] is not None and 0 < len(seq[3]) <= 40 and all(is_const(x) and x[1] < 128 for x in seq[3]):
        return ('O', 'iter', (el, ln, tuple(seq[3]), 0))
    if seq[3] is not None and 0 < len(seq[3]) <= 40 and c['item'] in ('iter', 'into_iter') and ln[1] == ln[2] == len(seq[3]):
        if by_ref and lv is not None:
            items = tuple(('R', lv[0], lv[1] + (('i', k),), False) for k in range(len(seq[3])))
        elif not by_ref:
            items = tuple(seq[3])
    if by_ref and lv is not None:
        el = ('R', lv[0], lv[1] + (('i*', None),), c['item'] == 'iter_mut')
    elif by_ref:
        el = ('R', None, (), False)
    if items is not None:
        return ('O', 'iter', (el, ln, items, 0))
    return ('O', 'iter', (el, ln))


def _iter_payload(v):
    if v[0] == 'O' and v[1] == 'iter':
        return v[2][:2]
    return None


def _iter_items(v):
    if v[0] == 'O' and v[1] == 'iter' and len(v[2]) > 2:
        if len(v[2]) > 4:
            return None         # a pending filter: the items are only a superset (see _iter_filtered)
        return v[2][2]
    return None


def _is_err(E, st, v):
    """the value is definitely the Err variant of a Result"""
    vs = enum_variants(E, st, v) if v[0] in ('E', 'T') else None
    return vs is not None and set(vs) == {1} and len(vs[1]) == 1 and v[0] == 'E' and _looks_result(v)


def _looks_result(v):
    return True


def _iter_filtered(v):
    """(items, position, pending filter or None) of a literal iterator, also behind a lazy `filter`"""
    if v[0] == 'O' and v[1] == 'iter' and len(v[2]) > 3 and v[2][2] is not None:
        return v[2][2], v[2][3], (v[2][4] if len(v[2]) > 4 else None)
    return None


def split_bool(E, st, v):
    """[(state, truth)] for a boolean abstract value"""
    v = E.scalar(st, v, E.types.by_name('bool'))
    if v[0] != 'I':
        return [(st, None)]
    if v[1] == v[2]:
        return [(st, bool(v[1]))]
    out = []
    for truth in (True, False):
        s2 = st.copy()
        ok = E.assume(s2, v[4], truth) if v[4] is not None else True
        if ok:
            out.append((s2, truth))
    return out


def _range_as_iter(E, st, frame, t, v):
    """a half-open integer Range used as an iterator: (element interval, length[, the elements])"""
    tyid = arg_ty(E, frame, t, 0)
    ty = E.types.get(tyid) if tyid is not None else None
    if ty is None or ty['k'] != 'adt' or ty['name'] not in ('core::ops::Range', 'std::ops::Range', 'core::ops::range::Range',
                                                             'core::ops::RangeInclusive', 'std::ops::RangeInclusive', 'core::ops::range::RangeInclusive'):
        return v
    incl = 'Inclusive' in ty['name']
    v = st.resolve(E.expand(v))
    if v == BOT or v[0] != 'A' or len(v[1]) != (3 if incl else 2):
        return v
    lo, hi = E.scalar(st, v[1][0]), E.scalar(st, v[1][1])
    if lo[0] != 'I' or hi[0] != 'I':
        return v
    if incl:
        ex = E.scalar(st, v[1][2])
        if not (ex[0] == 'I' and ex[1] == ex[2] == 0) or hi[2] >= (1 << 62):
            return v            # possibly exhausted / unbounded: leave it to the generic model
        hi = mk_int(hi[1] + 1, hi[2] + 1)
    ln = mk_int(max(hi[1] - lo[2], 0), max(hi[2] - lo[1], 0))
    el = mk_int(lo[1], max(hi[2] - 1, lo[1]))
    if lo[1] == lo[2] and hi[1] == hi[2] and 0 < hi[1] - lo[1] <= 40:
        return ('O', 'iter', (el, ln, tuple(const_int(i) for i in range(lo[1], hi[1])), 0))
    return ('O', 'iter', (el, ln))


@raw_model(['map', 'filter', 'filter_map', 'enumerate', 'rev', 'skip', 'take', 'zip', 'cloned', 'copied', 'peekable',
            'step_by', 'chain', 'flat_map', 'take_while', 'skip_while', 'inspect', 'by_ref', 'flatten', 'map_while'],
           trait='std::iter::Iterator')
def iter_adaptors(E, frame, b, t, sts, c, quiet):
    out = []
    item = c['item']
    dty = E.dest_ty(frame, t)
    cls = E.closure_bodies_in(frame, t)
    for st in sts:
        args = E.arg_vals(st, frame, t)
        args[0] = _range_as_iter(E, st, frame, t, args[0])
        p = _iter_payload(args[0])
        s2 = st
        if p is None:
            for ci, body in cls:
                s2, _ = E.run_closure_any(frame, b, t, s2, ci, body, quiet)
            E.write_dest(s2, frame, t, ('T', dty, E.site(frame, b, 'ia')))
            out.append(s2)
            continue
        el, ln = p
        res = None
        if item in ('map', 'filter_map', 'flat_map', 'map_while') and cls:
            ci, body = cls[0]
            items = _iter_items(args[0])
            if item == 'map' and items is not None and len(args[0][2]) > 3 and len(items) - args[0][2][3] <= 40:
                # literal / constant-range source: the closure is applied element by element, in order, each
                # application exactly once with its return paths kept apart (a closure that reads from a
                # stream has an Ok and an Err path per element).  A Result-returning closure stops being
                # applied after its first Err (what collect::<Result<..>>() and `?` loops do).
                pos0 = args[0][2][3]
                cur = [(s2, ())]
                for it in items[pos0:]:
                    nxt = []
                    for s_c, done in cur:
                        if done and _is_err(E, s_c, done[-1]):
                            nxt.append((s_c, done))
                            continue
                        for s_f, r_f in E.run_closure_once(frame, b, t, s_c, ci, body, quiet, [it]):
                            if r_f != BOT:
                                nxt.append((s_f, done + (E.deep_resolve(s_f, r_f) if r_f[0] in ('I', 'F', 'E', 'A') else r_f,)))
                    cur = nxt
                    if len(cur) > 24:
                        cur = None
                        break
                if cur is not None:
                    for s_c, done in cur:
                        r = BOT
                        for x in done:
                            r = join(r, x)
                        res = ('O', 'iter', (r if r != BOT else ('T', None, None), const_int(len(done)), tuple(done), 0))
                        E.write_dest(s_c, frame, t, res)
                        out.append(s_c)
                    continue
            if ln[2] == 0:
                r = BOT
            else:
                s2, r = E.run_closure_any(frame, b, t, s2, ci, body, quiet, arg_vals=[el])
            if item == 'map':
                res = ('O', 'iter', (r if r != BOT else ('T', None, None), ln))
            else:
                res = ('T', dty, E.site(frame, b, 'ia'))
        elif item == 'filter' and cls and _iter_items(args[0]) is not None and len(args[0][2]) == 4:
            # literal source: the predicate is applied element by element when the iterator is consumed
            ci, body = cls[0]
            its, pos0 = args[0][2][2], args[0][2][3]
            res = ('O', 'iter', (el, mk_int(0, ln[2]), its, pos0, ('filter', body['id'], E.operand(s2, frame, t['args'][ci]))))
        elif item in ('filter', 'take_while', 'skip_while', 'inspect') and cls:
            ci, body = cls[0]
            cell = ('h', E.site(frame, b, 'fe'))
            s2 = s2.copy()
            s2.cells[cell] = el
            if ln[2] > 0:
                s2, r = E.run_closure_any(frame, b, t, s2, ci, body, quiet, arg_vals=[('R', cell, (), False)])
            res = ('O', 'iter', (el, mk_int(0 if item != 'inspect' else ln[1], ln[2])))
        elif item in ('rev', 'cloned', 'copied', 'peekable', 'by_ref'):
            e2 = el
            if item in ('cloned', 'copied'):
                e2 = deref(E, s2, el)
            res = ('O', 'iter', (e2, ln)) if item != 'by_ref' else args[0]
            its_ = _iter_items(args[0])
            if item == 'rev' and its_ is not None and len(args[0][2]) == 4:
                rest = tuple(reversed(its_[args[0][2][3]:]))
                res = ('O', 'iter', (e2, const_int(len(rest)), rest, 0))
            elif item in ('cloned', 'copied') and its_ is not None and len(args[0][2]) == 4:
                rest = tuple(deref(E, s2, x) for x in its_[args[0][2][3]:])
                res = ('O', 'iter', (e2, const_int(len(rest)), rest, 0))
        elif item in ('skip', 'take', 'step_by'):
            res = ('O', 'iter', (el, mk_int(0, ln[2])))
        elif item == 'enumerate':
            idx = mk_int(0, max(ln[2] - 1, 0))
            res = ('O', 'iter', (('A', (idx, el)), ln))
            its_ = _iter_items(args[0])
            if its_ is not None and len(args[0][2]) == 4:
                # literal source: (constant index, item) pairs
                rest = its_[args[0][2][3]:]
                res = ('O', 'iter', (('A', (idx, el)), const_int(len(rest)), tuple(('A', (const_int(i), x)) for i, x in enumerate(rest)), 0))
        elif item == 'zip':
            p2 = _iter_payload(args[1])
            if p2 is None:
                seq2, _ = seq_of(E, s2, args[1], None)
                if seq2[0] == 'S':
                    p2 = _elem_of_seq(E, s2, seq2)
            if p2 is not None:
                res = ('O', 'iter', (('A', (el, p2[0])), mk_int(min(ln[1], p2[1][1]), min(ln[2], p2[1][2]))))
                i1, i2 = _iter_items(args[0]), _iter_items(E.expand(args[1]))
                if i1 is not None and i2 is not None and len(args[0][2]) > 3 and len(E.expand(args[1])[2]) > 3:
                    r1, r2 = i1[args[0][2][3]:], i2[E.expand(args[1])[2][3]:]
                    n = min(len(r1), len(r2))
                    res = ('O', 'iter', (('A', (el, p2[0])), const_int(n), tuple(('A', (x, y)) for x, y in zip(r1[:n], r2[:n])), 0))
        if res is None:
            for ci, body in cls:
                s2, _ = E.run_closure_any(frame, b, t, s2, ci, body, quiet)
            res = ('T', dty, E.site(frame, b, 'ia'))
        E.write_dest(s2, frame, t, res)
        out.append(s2)
    return out


@raw_model(['map'], rdid='core::array::')
def array_map(E, frame, b, t, sts, c, quiet):
    """<[T; N]>::map(f): the closure is applied to every element, in order, exactly once each; return paths of
    the closure are kept apart (up to 24 combinations), the result has the shape of the argument"""
    out = []
    dty = E.dest_ty(frame, t)
    cls = E.closure_bodies_in(frame, t)
    for st in sts:
        args = E.arg_vals(st, frame, t)
        arr = st.resolve(E.expand(args[0]))
        items = None
        if arr != BOT and arr[0] == 'S' and arr[3] is not None:
            items = list(arr[3])
        elif arr != BOT and arr[0] == 'A':
            items = list(arr[1])
        done_states = None
        if cls and items is not None and len(items) <= 40:
            ci, body = cls[0]
            cur = [(st, ())]
            for it in items:
                nxt = []
                for s_c, done in cur:
                    for s_f, r_f in E.run_closure_once(frame, b, t, s_c, ci, body, quiet, [it]):
                        if r_f != BOT:
                            nxt.append((s_f, done + (E.deep_resolve(s_f, r_f) if r_f[0] in ('I', 'F', 'E', 'A') else r_f,)))
                cur = nxt
                if len(cur) > 24:
                    cur = None
                    break
            done_states = cur
        if done_states is None:
            s2 = st
            for ci, body in cls:
                s2, _ = E.run_closure_any(frame, b, t, s2, ci, body, quiet)
            E.write_dest(s2, frame, t, ('T', dty, E.site(frame, b, 'am')))
            out.append(s2)
            continue
        for s_c, done in done_states:
            if arr[0] == 'S':
                el = BOT
                for x in done:
                    el = join(el, x)
                res = ('S', arr[1], el if el != BOT else ('T', None, None), tuple(done))
            else:
                res = ('A', tuple(done))
            E.write_dest(s_c, frame, t, res)
            out.append(s_c)
    return out


@raw_model(['all', 'any', 'position', 'find', 'for_each', 'count', 'sum', 'fold', 'max', 'min', 'last', 'nth', 'find_map',
            'max_by', 'min_by', 'max_by_key', 'min_by_key', 'rposition', 'product', 'try_for_each', 'try_fold', 'reduce'],
           trait='std::iter::Iterator')
def iter_consumers(E, frame, b, t, sts, c, quiet):
    out = []
    item = c['item']
    dty = E.dest_ty(frame, t)
    cls = E.closure_bodies_in(frame, t)
    for st in sts:
        args = E.arg_vals(st, frame, t)
        r0 = E.expand(args[0])
        itv = deref(E, st, r0) if r0[0] == 'R' else r0
        p = _iter_payload(itv)
        s2 = st
        res = None
        items = _iter_items(itv)
        if p is not None and items is not None and item in ('position', 'any', 'all') and cls and len(itv[2]) > 3:
            # literal container: evaluate the predicate on every remaining element; exact when all
            # results are constants
            ci, body = cls[0]
            pos0 = itv[2][3]
            verdicts = []
            s3 = s2
            for it in items[pos0:]:
                s3, r = E.run_closure_any(frame, b, t, s3, ci, body, quiet, arg_vals=[it])
                r = E.scalar(s3, r, E.types.by_name('bool')) if r != BOT else r
                verdicts.append(r[1] if r != BOT and r[0] == 'I' and r[1] == r[2] else None)
            if None not in verdicts:
                s2 = s3
                if item == 'position':
                    k = next((i for i, v in enumerate(verdicts) if v == 1), None)
                    res = ('E', None, ((1, (const_int(k),)),)) if k is not None else ('E', None, ((0, ()),))
                elif item == 'any':
                    res = const_int(1 if any(v == 1 for v in verdicts) else 0)
                else:
                    res = const_int(1 if all(v == 1 for v in verdicts) else 0)
                E.write_dest(s2, frame, t, res)
                out.append(s2)
                continue
        flt0 = _iter_filtered(itv)
        if item == 'fold' and cls and flt0 is not None and len(args) > 2 and len(flt0[0]) - flt0[1] <= 40:
            # literal container (possibly behind a lazy filter): the accumulator is threaded through the closure
            # element by element; it lives in a scratch cell so that states can be merged between elements
            its, pos0, pend = flt0
            ci, body = cls[0]
            fbody = E.prog.bodies.get(pend[1]) if pend is not None else None
            acell = ('h', E.site(frame, b, 'fold-acc'))
            s0 = s2
            s0.cells[acell] = args[1]
            cur = [s0]
            n_it = 0
            for it in its[pos0:]:
                n_it += 1
                nxt = []
                for s_c in cur:
                    takes = [s_c]
                    if pend is not None:
                        takes = []
                        cell = ('h', E.site(frame, b, ('flt', n_it)))
                        s_c.cells[cell] = it
                        for s_f, r_f in E.run_closure_once(frame, b, t, s_c, None, fbody, quiet, [('R', cell, (), False)], env_val=pend[2]):
                            for s_g, truth in split_bool(E, s_f, r_f):
                                if truth is None:
                                    takes.append(s_g.copy())
                                    nxt.append(s_g)
                                elif truth:
                                    takes.append(s_g)
                                else:
                                    nxt.append(s_g)
                    for s_t in takes:
                        acc = s_t.cells.get(acell)
                        for s_f, r_f in E.run_closure_once(frame, b, t, s_t, ci, body, quiet, [acc, it]):
                            if r_f != BOT:
                                s_f.cells[acell] = r_f
                                nxt.append(s_f)
                cur = E.limit(nxt, site=(frame.pathid, b, ('fold', n_it)), depth=frame.depth) if len(nxt) > 1 else nxt
                if not cur:
                    break
            for s_c in cur:
                acc = s_c.cells.pop(acell, None)
                if acc is None:
                    continue
                E.write_dest(s_c, frame, t, acc)
                out.append(s_c)
            continue
        flt = _iter_filtered(itv)
        if flt is not None and item in ('find', 'find_map') and cls and len(flt[0]) - flt[1] <= 40:
            # literal container: run the search element by element, one state per way it can end
            its, pos0, pend = flt
            ci, body = cls[0]
            fbody = E.prog.bodies.get(pend[1]) if pend is not None else None
            cont = [s2]
            n_it = 0
            for it in its[pos0:]:
                n_it += 1
                nxt = []
                for sc in cont:
                    cands = [sc]
                    if pend is not None:
                        cands = []
                        cell = ('h', E.site(frame, b, ('flt', n_it)))
                        sc.cells[cell] = it
                        for s_f, r_f in E.run_closure_once(frame, b, t, sc, None, fbody, quiet, [('R', cell, (), False)], env_val=pend[2]):
                            for s_g, truth in split_bool(E, s_f, r_f):
                                if truth is None or truth:
                                    cands.append(s_g)
                                if truth is None or not truth:
                                    nxt.append(s_g if truth is not None else s_g.copy())
                    for s_c in cands:
                        if item == 'find':
                            cell = ('h', E.site(frame, b, ('fnd', n_it)))
                            s_c.cells[cell] = it
                            for s_f, r_f in E.run_closure_once(frame, b, t, s_c, ci, body, quiet, [('R', cell, (), False)]):
                                for s_g, truth in split_bool(E, s_f, r_f):
                                    if truth is None or truth:
                                        s_h = s_g if truth else s_g.copy()
                                        E.write_dest(s_h, frame, t, ('E', None, ((1, (it,)),)))
                                        out.append(s_h)
                                    if truth is None or not truth:
                                        nxt.append(s_g)
                        else:
                            for s_f, r_f in E.run_closure_once(frame, b, t, s_c, ci, body, quiet, [it]):
                                vs_ = enum_variants(E, s_f, r_f)
                                if vs_ is None:
                                    s_h = s_f.copy()
                                    E.write_dest(s_h, frame, t, E.expand(('T', dty, E.site(frame, b, 'fm'))))
                                    out.append(s_h)
                                    nxt.append(s_f)
                                    continue
                                if 1 in vs_:
                                    s_h = s_f if 0 not in vs_ else s_f.copy()
                                    E.write_dest(s_h, frame, t, ('E', None, ((1, tuple(vs_[1])),)))
                                    out.append(s_h)
                                if 0 in vs_:
                                    nxt.append(s_f)
                cont = E.limit(nxt, site=(frame.pathid, b, ('find', n_it)), depth=frame.depth) if len(nxt) > 1 else nxt
                if not cont:
                    break
            for sc in cont:
                E.write_dest(sc, frame, t, ('E', None, ((0, ()),)))
                out.append(sc)
            continue
        if p is not None:
            el, ln = p
            if item == 'nth' and items is not None and len(itv[2]) > 3 and len(args) > 1:
                n = E.scalar(s2, args[1], E.types.by_name('usize'))
                pos0 = itv[2][3]
                if n[0] == 'I' and n[1] == n[2]:
                    k = pos0 + n[1]
                    res = ('E', None, ((1, (items[k],)),)) if k < len(items) else ('E', None, ((0, ()),))
                    E.write_dest(s2, frame, t, res)
                    out.append(s2)
                    continue
            if item in ('all', 'any', 'position', 'find', 'for_each', 'find_map', 'rposition') and cls:
                ci, body = cls[0]
                av = el
                if item == 'find':
                    cell = ('h', E.site(frame, b, 'fe'))
                    s2 = s2.copy()
                    s2.cells[cell] = el
                    av = ('R', cell, (), False)
                if ln[2] > 0:
                    s2, r = E.run_closure_any(frame, b, t, s2, ci, body, quiet, arg_vals=[av])
                if item in ('all', 'any'):
                    if ln[2] == 0:
                        res = const_int(1 if item == 'all' else 0)
                    else:
                        res = mk_int(0, 1, 0, T('o', E.site(frame, b, 'ic')))
                elif item in ('position', 'rposition'):
                    parts = [(0, ())]
                    if ln[2] > 0:
                        parts.append((1, (E.reg(mk_int(0, ln[2] - 1, 0, T('o', E.site(frame, b, 'pos')))),)))
                    res = ('E', T('e', E.site(frame, b, 'ic')), tuple(parts))
                elif item == 'find':
                    parts = [(0, ())]
                    if ln[2] > 0:
                        parts.append((1, (el,)))
                    res = ('E', T('e', E.site(frame, b, 'ic')), tuple(parts))
                elif item == 'for_each':
                    res = ('A', ())
            elif item == 'count':
                res = ln
            elif item == 'sum':
                dt = E.types.get(dty) if dty is not None else None
                if dt is not None and dt['k'] == 'float':
                    acc = ('F', 0.0, 0.0, False, None)
                    if items is not None and len(itv[2]) > 3:
                        for it in items[itv[2][3]:]:
                            x = E.scalar(s2, it, dty)
                            acc = A.float_binop('Add', acc, x, dt['bits']) if x[0] == 'F' else None
                            if acc is None:
                                break
                    else:
                        x = E.scalar(s2, el, dty) if ln[2] > 0 else ('F', 0.0, 0.0, False, None)
                        if x[0] == 'F' and ln[2] <= 1 << 20 and x[1] <= x[2]:
                            slack = 1.0 + 1e-9      # accumulated rounding of at most 2^20 additions
                            lo = min(0.0, ln[2] * x[1] * slack if x[1] < 0 else ln[1] * x[1])
                            hi = max(0.0, ln[2] * x[2] * slack if x[2] > 0 else ln[1] * x[2])
                            nan = x[3] or (x[1] == -A.INF and x[2] == A.INF)
                            acc = ('F', lo, hi, nan, None)
                        else:
                            acc = None
                    if acc is not None:
                        res = E.reg(('F', acc[1], acc[2], acc[3], T('o', E.site(frame, b, 'sum'))))
                elif dt is not None and dt['k'] in ('int', 'uint'):
                    x = E.scalar(s2, el, dty) if ln[2] > 0 else const_int(0)
                    lo_t, hi_t = int_range(dt)
                    fits = x[0] == 'I' and min(0, ln[2] * x[1]) >= lo_t and max(0, ln[2] * x[2]) <= hi_t
                    oblig(E, frame, b, t, fits, 'integer sum may overflow (%s elements of %s)' % (A.show_val(ln), A.show_val(x) if x[0] == 'I' else '?'))
                    if fits:
                        res = E.reg(mk_int(min(0, ln[2] * x[1]), max(0, ln[2] * x[2]), 0, T('o', E.site(frame, b, 'sum'))))
            elif item == 'nth' and len(args) > 1:
                n = E.scalar(s2, args[1], E.types.by_name('usize'))
                some = ln[2] > 0
                none = True
                if n[0] == 'I':
                    if n[2] < ln[1] or (n[4] is not None and ln[4] is not None and n[1] >= 0 and E.entails_lt(s2, n[4], ln[4])):
                        none = False            # n < remaining length on every path
                    if n[1] >= ln[2]:
                        some = False
                parts = []
                if none:
                    parts.append((0, ()))
                if some:
                    parts.append((1, (el,)))
                res = ('E', T('e', E.site(frame, b, 'ic')), tuple(parts))
            elif item in ('last', 'nth', 'max', 'min'):
                parts = [(0, ())]
                if ln[2] > 0:
                    parts.append((1, (el,)))
                res = ('E', T('e', E.site(frame, b, 'ic')), tuple(parts))
        if res is None:
            for ci, body in cls:
                s2, _ = E.run_closure_any(frame, b, t, s2, ci, body, quiet)
            res = E.expand(('T', dty, E.site(frame, b, 'ic')))
        E.write_dest(s2, frame, t, res)
        out.append(s2)
    return out


@model(['collect'], trait='std::iter::Iterator')
def iter_collect(E, st, frame, b, t, c, args):
    dty = E.dest_ty(frame, t)
    p = _iter_payload(args[0])
    ty = E.types.get(dty) if dty is not None else None
    if ty is not None and ty['k'] == 'adt' and ty['name'].endswith('result::Result') and ty.get('args') and p is not None:
        # collect::<Result<Vec<T>, E>>(): Ok(all payloads) or the first Err
        its = _iter_items(args[0])
        okty = E.types.get(ty['args'][0])
        if its is not None and len(args[0][2]) > 3 and E.types.is_seq_adt(okty):
            rest = its[args[0][2][3]:]
            pay = []
            for x in rest:
                vs = enum_variants(E, st, x) if x[0] in ('E', 'T') else None
                if vs is None or len(vs) != 1:
                    pay = None
                    break
                (vi, fs), = vs.items()
                if vi == 1:
                    return ('E', None, ((1, tuple(fs)),))
                pay.append(fs[0])
            if pay is not None:
                el = BOT
                for x in pay:
                    el = join(el, E.deep_resolve(st, x))
                return ('E', None, ((0, (('S', const_int(len(pay)), el if el != BOT else ('T', E.types.seq_elem(okty), None), tuple(pay)),)),))
    if ty is not None and E.types.is_seq_adt(ty):
        if p is not None:
            el, ln = p
            lt = T('len', E.site(frame, b, 'col'))
            if 'String' in ty['name']:
                return ('S', E.reg(mk_int(ln[1], min(ln[2] * 4, U63), 0, lt)), mk_int(0, 255), None)
            if ln[0] == 'I' and ln[4] is None and ln[1] != ln[2]:
                ln = E.reg(mk_int(ln[1], ln[2], 0, lt))
            items = _iter_items(args[0])
            if items is not None and len(args[0][2]) > 3:
                rest = items[args[0][2][3]:]
                return ('S', const_int(len(rest)), el, tuple(rest))
            return ('S', ln, el, None)
        return ('S', E.reg(mk_int(0, U63, 0, T('len', E.site(frame, b, 'col')))), ('T', E.types.seq_elem(ty), None), None)
    return E.expand(('T', dty, E.site(frame, b, 'col')))


@model(['next'], trait='std::iter::Iterator', pred=lambda c: c.get('rcrate') in ('core', 'alloc', 'std'))
def iter_next(E, st, frame, b, t, c, args):
    r0 = E.expand(args[0])
    itv = deref(E, st, r0) if r0[0] == 'R' else r0
    p = _iter_payload(itv)
    dty = E.dest_ty(frame, t)
    if p is None:
        return E.expand(('T', dty, E.site(frame, b, 'nx')))
    el, ln = p
    items = _iter_items(itv)
    if items is not None and E.elementwise and r0[0] == 'R' and r0[1] is not None:
        # a small literal container is iterated element by element (the loop is unrolled)
        pos = itv[2][3]
        if pos < len(items):
            E.write_lv(st, (r0[1], r0[2]), ('O', 'iter', (el, mk_int(max(ln[1] - 1, 0), max(ln[2] - 1, 0)), items, pos + 1)))
            return ('E', None, ((1, (items[pos],)),))
        return ('E', None, ((0, ()),))
    parts = [(0, ())]
    if ln[2] > 0:
        parts.append((1, (el,)))
    return ('E', T('e', E.site(frame, b, 'nx')), tuple(parts))


# tracing / log macro internals (trusted machinery): the field iterator of a static callsite
# always has the fields the macro itself declared
@model(['next'], trait='std::iter::Iterator', pred=lambda c: (c.get('rself') or '').startswith('tracing::field::Iter') or (c.get('rdid') or '').startswith('tracing_core::field::'))
def tracing_iter_next(E, st, frame, b, t, c, args):
    dty = E.dest_ty(frame, t)
    ty = E.types.get(dty)
    pt = ty['variants'][1]['fields'][0].get('ty')
    return ('E', None, ((1, (('T', pt, None),)),))


# ------------------------------------------------------------------------------------------
# constant-argument obligations

def const_bytes_of(E, st, v):
    v = E.expand(v)
    if v[0] == 'R' and v[1] is not None and isinstance(v[1], tuple) and v[1][0] == 'k':
        s = st.cells.get(v[1]) or E.kcells.get(v[1])
        if s is not None and s[0] == 'S' and s[3] is not None and all(is_const(x) for x in s[3]):
            return bytes(x[1] for x in s[3])
    return None


def regex_literal_ok(pat):
    """the literal is in the common subset of Rust `regex` and Python `re` and compiles"""
    import re
    if any(x in pat for x in ('(?P', '\\p', '\\P', '(?<', '\\z', '\\A', '[[:', '&&', '~~', '--', '(?x', '(?U', '(?R', '\\K', '\\G', '(?#', '(?=', '(?!', '\\1', '\\2', '*+', '++', '?+', '\\h', '\\Z')):
        return False
    try:
        re.compile(pat)
    except re.error:
        return False
    return True


@model(['new'], rself='regex::Regex', pred=lambda c: c.get('rcrate') == 'regex' and (c.get('rself') or '').split('<')[0] in ('regex::Regex', 'regex::regex::string::Regex', 'regex::bytes::Regex'))
def regex_new(E, st, frame, b, t, c, args):
    dty = E.dest_ty(frame, t)
    ty = E.types.get(dty)
    okty = ty['variants'][0]['fields'][0].get('ty')
    erty = ty['variants'][1]['fields'][0].get('ty')
    lit = const_bytes_of(E, st, args[0])
    parts = [(0, (('T', okty, E.site(frame, b, 'rx')),))]
    good = False
    if lit is not None:
        try:
            pat = lit.decode('utf8')
            good = regex_literal_ok(pat)
            E.const_checks.append(('regex', pat, good, '%s:%s' % (frame.body['file'], t.get('sp'))))
        except UnicodeDecodeError:
            good = False
    if not good:
        parts.append((1, (('T', erty, None),)))
    return ('E', T('e', E.site(frame, b, 'rx')), tuple(parts))


# ------------------------------------------------------------------------------------------
# url 2.x (WHATWG URL): contracts used by jet1090's Source::from_str.
#  * Url::parse(<literal>) is Ok when the literal is `scheme://` + an optional plain host
#  * for the special schemes the default port is known and the path starts with "/"
URL_SPECIAL = {b'ws': 80, b'wss': 443, b'http': 80, b'https': 443, b'ftp': 21}


def _val_origin(E, st, v):
    o = _val_origin0(E, st, v)
    while o.__class__ is tuple and len(o) == 2 and o[1] == '*':
        o = o[0]
    return o


def _val_origin0(E, st, v):
    if v[0] == 'T' and v[2] is not None:
        return v[2]
    v = E.expand(v)
    for _ in range(6):
        if v[0] == 'R':
            if v[1] is None:
                return None
            v = E.read_lv(st, (v[1], v[2]), None)
            if v[0] == 'T':
                return v[2]
            v = E.expand(v)
        elif v[0] == 'T':
            return v[2]
        else:
            return None
    return None


def _url_scheme(E, st, uo):
    if uo is None:
        return None
    lt = T('len', ((uo, 'urlscheme'), '*'))
    for t, r in st.rf.items():
        if t[0] == 'streq' and t[1] == lt and r[0] == 1:
            return bytes.fromhex(t[2])
    return None


def url_literal_ok(lit):
    import re
    return re.match(r'^[a-zA-Z][a-zA-Z0-9+.-]*://([a-zA-Z0-9.-]+(:[0-9]{1,5})?)?(/[a-zA-Z0-9._~/-]*)?$', lit) is not None


@model(['parse'], rself='url::Url', pred=lambda c: c.get('rcrate') == 'url')
def url_parse(E, st, frame, b, t, c, args):
    dty = E.dest_ty(frame, t)
    ty = E.types.get(dty)
    okty = ty['variants'][0]['fields'][0].get('ty')
    erty = ty['variants'][1]['fields'][0].get('ty')
    lit = const_bytes_of(E, st, args[0])
    parts = [(0, (('T', okty, E.site(frame, b, 'url')),))]
    good = False
    if lit is not None:
        try:
            good = url_literal_ok(lit.decode('utf8'))
            E.const_checks.append(('url', lit.decode('utf8'), good, '%s:%s' % (frame.body['file'], t.get('sp'))))
        except UnicodeDecodeError:
            good = False
    if not good:
        parts.append((1, (('T', erty, None),)))
    return ('E', T('e', E.site(frame, b, 'url')), tuple(parts))


@model(['scheme', 'path'], rself='url::Url', pred=lambda c: c.get('rcrate') == 'url')
def url_scheme(E, st, frame, b, t, c, args):
    uo = _val_origin(E, st, args[0])
    dty = E.dest_ty(frame, t)
    if uo is None:
        return ('T', dty, E.site(frame, b, 'x'))
    return ('T', dty, (uo, 'url' + c['item']))


@model(['port_or_known_default'], rself='url::Url', pred=lambda c: c.get('rcrate') == 'url')
def url_port_default(E, st, frame, b, t, c, args):
    uo = _val_origin(E, st, args[0])
    sch = _url_scheme(E, st, uo)
    site = E.site(frame, b, 'port')
    some = (1, (E.reg(mk_int(0, 65535, 0, T('o', site))),))
    if sch in URL_SPECIAL:
        return ('E', None, (some,))
    return ('E', T('e', site), ((0, ()), some))


@model(['strip_prefix'], pred=lambda c: (c.get('rself') or '') == 'str' and c.get('rcrate') == 'core')
def str_strip_prefix(E, st, frame, b, t, c, args):
    dty = E.dest_ty(frame, t)
    ty = E.types.get(dty)
    sty = ty['variants'][1]['fields'][0].get('ty')
    site = E.site(frame, b, 'sp')
    some = (1, (('T', sty, site),))
    o = _val_origin(E, st, args[0])
    pat = const_bytes_of(E, st, args[1]) if len(args) > 1 else None
    if pat == b'/' and isinstance(o, tuple) and len(o) == 2 and o[1] == 'urlpath':
        sch = _url_scheme(E, st, o[0])
        if sch in URL_SPECIAL or sch == b'file':
            return ('E', None, (some,))       # WHATWG: the path of a special URL starts with "/"
    return ('E', T('e', site), ((0, ()), some))


# ------------------------------------------------------------------------------------------
# MutexGuard: deref / deref_mut yield the one guarded value (a stable pointee cell per guard)

@model(['deref', 'deref_mut'], pred=lambda c: 'MutexGuard<' in (c.get('rself') or ''))
def guard_deref(E, st, frame, b, t, c, args):
    g = E.expand(args[0])
    gty = pointee_ty(E, frame, t, 0)
    inner_ty = None
    if gty is not None:
        ga = E.types.get(gty).get('args') or []
        inner_ty = ga[0] if ga else None
    if g[0] == 'R' and g[1] is not None:
        gv = E.read_lv(st, (g[1], g[2]), gty)
        # the guard itself may be reached through another reference (&mut MutexGuard)
        if gv[0] == 'R' and gv[1] is not None:
            g = gv
            gv = E.read_lv(st, (g[1], g[2]), gty)
        org = gv[2] if gv[0] == 'T' and gv[2] is not None else ('cell', g[1], g[2])
        cell = ('o', (org, 'guarded'))
        E.pointee_init(st, cell, inner_ty)
        return ('R', cell, (), True)
    return ('R', None, (), True)


# ratatui TableState: `selected` is kept as a ghost payload of the (otherwise opaque) value
@model(['selected'], pred=lambda c: 'TableState' in (c.get('rself') or '') and c.get('rcrate') == 'ratatui')
def tablestate_selected(E, st, frame, b, t, c, args):
    r = E.expand(args[0])
    dty = E.dest_ty(frame, t)
    if r[0] == 'R' and r[1] is not None:
        v = E.read_lv(st, (r[1], r[2]), None)
        if v[0] == 'O' and v[1] == 'tablestate':
            return v[2][0]
    return E.expand(('T', dty, E.site(frame, b, 'sel')))


@model(['select'], pred=lambda c: 'TableState' in (c.get('rself') or '') and c.get('rcrate') == 'ratatui')
def tablestate_select(E, st, frame, b, t, c, args):
    r = E.expand(args[0])
    if r[0] == 'R' and r[1] is not None:
        E.write_lv(st, (r[1], r[2]), ('O', 'tablestate', (args[1],)))
    return ('A', ())


# ------------------------------------------------------------------------------------------
# String + &str, integer to_string, once_cell::Lazy, vec![..]

@model(['add', 'add_assign'], trait=('std::ops::Add', 'std::ops::AddAssign'), pred=lambda c: (c.get('rself') or '') in ('std::string::String', 'alloc::string::String'))
def string_add(E, st, frame, b, t, c, args):
    a, lv = seq_of(E, st, args[0], None)
    bb_, _ = seq_of(E, st, args[1], None)
    if a[0] == 'S' and bb_[0] == 'S':
        l1, l2 = st.resolve(a[1]), st.resolve(bb_[1])
        items = a[3] + bb_[3] if a[3] is not None and bb_[3] is not None and len(a[3]) + len(bb_[3]) <= 64 else None
        res = ('S', E.reg(mk_int(l1[1] + l2[1], min(l1[2] + l2[2], U63), 0, A.mkterm('Add', l1[4], l2[4]))), join(a[2], bb_[2]), items)
    else:
        res = ('S', mk_int(0, U63), mk_int(0, 255), None)
    if c['item'] == 'add_assign':
        if lv is not None:
            E.write_lv(st, lv, res)
        return ('A', ())
    return res


@model(['to_string'], trait='std::string::ToString', pred=lambda c: c.get('rcrate') == 'alloc' and (c.get('rself') or '') in PRIMS)
def int_to_string(E, st, frame, b, t, c, args):
    v = scalar_of(E, st, args[0])
    if v[0] != 'I':
        return ('S', mk_int(1, 40), mk_int(0x2d, 0x39), None)

    def digits(x):
        return len(str(abs(x))) + (1 if x < 0 else 0)
    lo, hi = v[1], v[2]
    cands = [digits(lo), digits(hi)] + ([1] if lo <= 0 <= hi else [])
    dl = min(cands) if (lo >= 0 or hi <= 0) else 1
    dh = max(digits(lo), digits(hi))
    return ('S', mk_int(dl, dh), mk_int(0x2d, 0x39), None)


@model(['deref', 'force'], pred=lambda c: 'once_cell' in (c.get('rdid') or c.get('did') or '') and 'Lazy' in (c.get('rself') or c.get('name') or ''))
def lazy_deref(E, st, frame, b, t, c, args):
    """the value of a `static X: Lazy<T> = Lazy::new(|| ..)`: the initialiser closure is interpreted once
    (its obligations count) and the result is an immutable constant"""
    r = E.expand(args[0])
    dty = E.dest_ty(frame, t)
    name = None
    if r[0] == 'R' and isinstance(r[1], tuple) and r[1][0] == 'k' and r[1][1] == 'alloc':
        a = E.prog.allocs.get(r[1][2])
        name = a.get('static') if a else None
    if name is None:
        return ('T', dty, E.site(frame, b, 'lazy'))
    cell = ('k', 'lazy', name)
    if cell not in E.kcells:
        body = E.prog.bodies.get(name + '::{closure#0}')
        val = None
        if body is not None and name not in E.lazy_running:
            E.lazy_running.add(name)
            try:
                s0 = A.State()
                d = frame.depth + 1
                path = frame.path + ((frame.body['name'], b), ('lazy:' + name, 0))
                fr = A.Frame(d, body, path, E.pathid(path), E.info(body))
                s0.cells[(d, 1)] = ('A', ())
                E.fn_seen.add(body['id'])
                outs = E.run_body(fr, [s0])
                if len(outs) >= 1:
                    val = E.deep_resolve(outs[0][0], outs[0][1])
                    for st2, v2 in outs[1:]:
                        val = join(val, E.deep_resolve(st2, v2))
            except A.AnalysisError:
                val = None
            finally:
                E.lazy_running.discard(name)
        pt = E.types.pointee(E.types.get(dty)) if dty is not None else None
        E.kcells[cell] = val if val is not None else ('T', pt, ('lazy', name))
    return ('R', cell, (), False)


@model(['box_assume_init_into_vec_unsafe'], pred=lambda c: c.get('rcrate') == 'alloc')
def vec_from_boxed_array(E, st, frame, b, t, c, args):
    """tail of the vec![a, b, ..] expansion: the array written just before through the box pointer"""
    arr = st.cells.get(('vecinit', frame.depth))
    dty = E.dest_ty(frame, t)
    ty = E.types.get(dty)
    et = E.types.seq_elem(ty) if ty is not None else None
    if arr is not None and arr[0] == 'S':
        del st.cells[('vecinit', frame.depth)]
        return arr
    return ('S', mk_int(0, U63), ('T', et, None), None)


def json_matches(prog, tyid, val, path='$', keys_of=None):
    """does the JSON value deserialize into the type (serde derive defaults: all non-Option fields
    required, unknown fields ignored)?  returns None or an error string"""
    ty = prog.types[tyid]
    k = ty['k']
    if k in ('int', 'uint'):
        if isinstance(val, bool) or not isinstance(val, int):
            return '%s: expected integer' % path
        lo, hi = A.int_range(ty)
        return None if lo <= val <= hi else '%s: integer out of range' % path
    if k == 'float':
        return None if isinstance(val, (int, float)) and not isinstance(val, bool) else '%s: expected number' % path
    if k == 'bool':
        return None if isinstance(val, bool) else '%s: expected bool' % path
    if k == 'adt':
        n = ty['name']
        if n in ('alloc::string::String', 'std::string::String'):
            return None if isinstance(val, str) else '%s: expected string' % path
        if n in ('alloc::vec::Vec', 'std::vec::Vec'):
            if not isinstance(val, list):
                return '%s: expected array' % path
            for i, x in enumerate(val):
                e = json_matches(prog, ty['args'][0], x, '%s[%d]' % (path, i), keys_of)
                if e:
                    return e
            return None
        if n in ('core::option::Option', 'std::option::Option'):
            return None if val is None else json_matches(prog, ty['args'][0], val, path, keys_of)
        if ty['ak'] == 'struct' and ty['variants'] and all('ty' in f for f in ty['variants'][0]['fields']):
            if not isinstance(val, dict):
                return '%s: expected object' % path
            fields = ty['variants'][0]['fields']
            keys = keys_of(ty) if keys_of else None
            if keys is None or len(keys) != len(fields) or None in keys:
                keys = [f['name'] for f in fields]       # no Serialize impl to read renames from: plain field names
            for f, key in zip(fields, keys):
                fty = prog.types[f['ty']]
                opt = fty['k'] == 'adt' and fty['name'] in ('core::option::Option', 'std::option::Option')
                if key not in val:
                    if not opt:
                        return '%s: missing field %s' % (path, key)
                    continue
                e = json_matches(prog, f['ty'], val[key], path + '.' + key, keys_of)
                if e:
                    return e
            return None
    return '%s: type %s not supported by the data rule' % (path, ty['s'])


@model(['from_str'], pred=lambda c: (c.get('rdid') or c.get('did') or '').startswith('serde_json::de::from_str'))
def serde_json_from_str(E, st, frame, b, t, c, args):
    """serde_json::from_str(<embedded data file>): Ok when the constant deserializes into the target type
    (data rule, evaluated on the literal of the current tree); the value itself stays abstract"""
    import json as _json
    dty = E.dest_ty(frame, t)
    ty = E.types.get(dty)
    okty = ty['variants'][0]['fields'][0].get('ty')
    erty = ty['variants'][1]['fields'][0].get('ty')
    lit = const_bytes_of(E, st, args[0])
    if lit is None:
        v = E.expand(args[0])
        if v[0] == 'R' and isinstance(v[1], tuple) and v[1][0] == 'k' and v[1][1] == 'bytes':
            lit = None
    good = False
    detail = 'argument is not a constant'
    raw = _const_raw(E, st, args[0])
    if raw is not None:
        try:
            data = _json.loads(raw.decode('utf8'))
            def keys_of(sty):
                from props import util
                return util.serde_struct_keys(E.prog, sty.get('s') or sty.get('name'))
            err = json_matches(E.prog, okty, data, keys_of=keys_of)
            good = err is None
            detail = err
            if good:
                E.json_consts[okty] = data
        except ValueError as e:
            detail = 'invalid JSON: %s' % e
    E.const_checks.append(('json', E.types.get(okty)['s'], good, '%s:%s' % (frame.body['file'], t.get('sp')), detail))
    parts = [(0, (('T', okty, E.site(frame, b, 'json')),))]
    if not good:
        parts.append((1, (('T', erty, None),)))
    return ('E', T('e', E.site(frame, b, 'json')), tuple(parts))


def _const_raw(E, st, v):
    """raw bytes of a constant &str argument, also when it is too long to be kept element-wise"""
    v = E.expand(v)
    if v[0] == 'R' and isinstance(v[1], tuple) and v[1][0] == 'k':
        raw = E.kraw.get(v[1])
        if raw is not None:
            return raw
    return const_bytes_of(E, st, v)


@model(['from_str_radix'], pred=_int_self)
def int_from_str_radix(E, st, frame, b, t, c, args):
    radix = E.scalar(st, args[1], E.types.by_name('u32'))
    ok = radix[0] == 'I' and radix[1] >= 2 and radix[2] <= 36
    oblig(E, frame, b, t, ok, 'from_str_radix panics unless 2 <= radix <= 36 (radix %s)' % (A.show_val(radix) if radix[0] == 'I' else '?'), nontrivial=False)
    dty = E.dest_ty(frame, t)
    ty = E.types.get(dty)
    okty = ty['variants'][0]['fields'][0].get('ty')
    erty = ty['variants'][1]['fields'][0].get('ty')
    site = E.site(frame, b, 'fsr')
    return ('E', T('e', site), ((0, (E.expand(('T', okty, site)),)), (1, (('T', erty, None),))))


@model(['from_elem'], pred=lambda c: (c.get('rdid') or c.get('did') or '').startswith('alloc::vec::from_elem'))
def vec_from_elem(E, st, frame, b, t, c, args):
    """vec![elem; n]: a vector of exactly n copies of elem"""
    usz = E.types.by_name('usize')
    n = E.scalar(st, args[1], usz)
    if n[0] != 'I':
        n = mk_int(0, U63)
    el = E.expand(args[0])
    items = None
    if n[1] == n[2] and 0 < n[1] <= 40:
        items = tuple(el for _ in range(n[1]))
    return ('S', n, el, items)


@model(['split_at', 'split_at_mut'], pred=_seq_self)
def seq_split_at(E, st, frame, b, t, c, args):
    """<[T]>::split_at(mid): panics if mid > len; two sub-slices (copies of the abstract content)"""
    usz = E.types.by_name('usize')
    seq, lv = seq_of(E, st, args[0], pointee_ty(E, frame, t, 0))
    mid = E.scalar(st, args[1], usz)
    if seq[0] != 'S' or mid[0] != 'I':
        oblig(E, frame, b, t, False, 'split_at on an unknown slice / index')
        return E.expand(('T', E.dest_ty(frame, t), E.site(frame, b, 'spl')))
    ln = st.resolve(seq[1])
    ok = mid[2] <= ln[1] or (mid[4] is not None and ln[4] is not None and E.entails_le(st, mid[4], ln[4]))
    oblig(E, frame, b, t, ok, 'split_at: mid %s may exceed len %s' % (show_val(mid), show_val(ln)))
    mut = c['item'] == 'split_at_mut'
    i1 = i2 = None
    if seq[3] is not None and mid[1] == mid[2] and mid[1] <= len(seq[3]):
        i1, i2 = seq[3][:mid[1]], seq[3][mid[1]:]
    l1 = mid
    l2 = mk_int(max(ln[1] - mid[2], 0), max(ln[2] - mid[1], 0))
    if ln[4] is not None and mid[4] is not None and l2[1] != l2[2]:
        l2 = E.reg(mk_int(l2[1], l2[2], 0, A.mkterm('Sub', ln[4], mid[4])))
    c1, c2 = ('h', E.site(frame, b, 'spl1')), ('h', E.site(frame, b, 'spl2'))
    st.cells[c1] = ('S', l1, seq[2], i1)
    st.cells[c2] = ('S', l2, seq[2], i2)
    return ('A', (('R', c1, (), mut), ('R', c2, (), mut)))


@raw_model(['then', 'then_some'], pred=lambda c: (c.get('rself') or '') == 'bool' and c.get('rcrate') == 'core')
def bool_then(E, frame, b, t, sts, c, quiet):
    """bool::then(f) / then_some(v): Some(f()) / Some(v) when true, None when false (one state per case)"""
    out = []
    cls = E.closure_bodies_in(frame, t)
    for st in sts:
        args = E.arg_vals(st, frame, t)
        for s_b, truth in split_bool(E, st, args[0]):
            if truth is None:
                E.write_dest(s_b, frame, t, E.expand(('T', E.dest_ty(frame, t), E.site(frame, b, 'then'))))
                out.append(s_b)
                continue
            if not truth:
                E.write_dest(s_b, frame, t, ('E', None, ((0, ()),)))
                out.append(s_b)
                continue
            if c['item'] == 'then_some':
                E.write_dest(s_b, frame, t, ('E', None, ((1, (args[1],)),)))
                out.append(s_b)
            elif cls:
                ci, body = cls[0]
                for s_f, r_f in E.run_closure_once(frame, b, t, s_b, ci, body, quiet, []):
                    if r_f == BOT:
                        continue
                    E.write_dest(s_f, frame, t, ('E', None, ((1, (r_f,)),)))
                    out.append(s_f)
            else:
                E.write_dest(s_b, frame, t, E.expand(('T', E.dest_ty(frame, t), E.site(frame, b, 'then'))))
                out.append(s_b)
    return out
