"""Regenerates MANIFEST.json from the table below (kept next to the checkers so that the
claimed level / technique text is edited in one place)."""
import json
import os
import subprocess

VERIF = os.path.dirname(os.path.dirname(os.path.abspath(__file__)))

CLAIMED = {
 'C01': dict(level='proof', engine='absint',
    technique='abstract interpretation of MIR (intervals, known bits, bit-field terms, path facts, trace partitioning); loop classification; effect closure over resolved callees',
    text='Every MIR Assert, every library call with a panic precondition and every diverging call reachable from Message::try_from / from_bytes / Display / Debug is an obligation discharged by a sound abstract interpretation over arbitrary input bytes; loops are shown bounded (unrolled to completion or driven by finite iterators); every Ok state of try_from carries len = 7 or 14 as its DF id prescribes; reachable external callees carry no clock/random/env/IO effect.',
    note='Trusted: rustc MIR semantics at mir-opt-level 0, the library contracts in checker/models.py (deku 0.18 reads, core/alloc containers, fmt, regex-literal rule), totality of the listed trusted external crates, the engine itself. Allocation failure and stack exhaustion are out of scope. x86-64 usize.',
    ref='DESIGN.md §7 C01'),
 'C02': dict(level='other', engine='tables+absint',
    technique='constant-table comparison against a generator; GF(2)-linear normal form of the symbolic checksum expression compared with polynomial division on a basis; path-fact rules over the abstract states of the Message reader (DF id as a term of the first frame byte, provenance marker on the checksum)',
    text='Decides: all 256 CRC table entries equal the remainder of i*x^24 by the Mode S generator; a frame goes on to DF decoding only in states that exclude DF 17 or have checksum 0, and the CRC error is raised only with id 17 and checksum >= 1; the checksum is computed over all 7/14 frame bytes in order and is the value stored as Message.crc and as the address/parity field of DF 0, 4, 5, 16, 20, 21; index obligations of modes_checksum; no error exit of the DF reader is reachable for a complete frame of an address/parity format (every payload yields its address); modes_checksum(frame) equals the remainder of the frame polynomial by the generator for every 56- and 112-bit frame (its symbolic expression over the frame bytes uses only xor, shifts, constant masks and lookups in the table shown GF(2)-linear, so it is a linear map of the frame bits, and it agrees with long division on the zero frame and on all 56 / 112 unit vectors). Error detection: on the 112 syndromes L(unit_k) of that extracted linear map - all non-zero, pairwise different, and linearly independent inside each of the 89 windows of 24 consecutive bits - so no 1-bit, 2-bit or <= 24-bit burst corruption of a frame has checksum 0 and (by the acceptance rule) none of a valid DF17 frame is accepted as DF17.',
    note='Static rule check; every clause of the statement is decided on the extracted expression and states. Trusted: rustc constant evaluation and MIR, deku read contracts, the abstract interpreter.',
    ref='DESIGN.md §7 C02'),
 'C03': dict(level='other', engine='absint+dataflow',
    technique='modular abstract interpretation of every deku reader from bit 0 of a synthetic stream (exact bit positions of primitive reads), MIR dataflow from each read to the field it builds, comparison with a reviewed layout table; per-field slices whose symbolic value expressions are evaluated exhaustively over the field\'s codes against a scale table; path facts at the store of the DF20 BDS 0,5 label; constant tables',
    text='Layout: for 48 decode types (DF headers, ADS-B ME dispatcher, BDS 0,5 0,6 0,8 0,9 (+3 subtypes) 1,0 1,7 1,8 1,9 2,0 3,0 4,0 4,4 4,5 5,0 6,0 6,1 6,2 6,5 and their sub-structures, AC13/ID13/ICAO fields; 440 fields) each decoded field is built from exactly the bits the standard assigns to it, other bits flow in only as the listed status / sign / type-code dependencies, the bits read and dropped are the reserved ones, and every nested register starts at the tabulated bit of its dispatcher. Characters: both 6-bit tables equal Annex 10 at the 37 defined codes. DF20: every store of Some into DF20DataSelector.bds05 is under the fact payload altitude == header altitude; DF21DataSelector.bds05 is never Some. Scales: for 33 numeric fields (BDS 0,6 0,9 4,0 4,4 4,5 5,0 6,0 6,2: headings, tracks, speeds, rates, temperatures, pressures, selected altitudes) the expression computed on every path of the field\'s reader, evaluated for every combination of the field\'s bits that the path admits (about 60,000 codes), equals the value the standard assigns to that code. Altitude and identity codes (L5): the rules of C13 - identity bit permutation, Gillham tables and per-class normal forms, 25*N - 1000 on the Q path, re-insertion of the M bit of the 12-bit field before the permutation, no lossy cast - are evaluated under this property too.',
    note='Static rule check: necessary conditions of the round trip (right bits, right dependencies, right table, right value per code), not the round trip with an independent encoder. Codes for which the decoder reports nothing (validity filters of the Comm-B inference, rejected registers) are not compared; The scale table (checker/props/c03_scales.py) is transcribed from Doc 9871 / DO-260B. spec/layouts.json was generated from the pinned tree and reviewed against the field tables of ICAO Doc 9871 / DO-260B (DESIGN.md §7 C03); BDS 2,1 and DF19/DF24 are exempt by name.',
    ref='DESIGN.md §7 C03'),
 'C04': dict(level='other', engine='absint',
    technique='decision-list extraction from branch facts (path enumeration of a comparison-only function) compared with the NL formula; parity facts and float intervals at the result construction sites',
    text='Decides: nl() is, for every latitude (both signs, NaN), the 59-band NL table whose breakpoints equal the formula to the table\'s 8 decimals; airborne_position builds a position only in states where the two reports have opposite parity (both orders), only on paths that passed the guard NL(returned latitude) = NL(other latitude), the returned latitude interval is within [-90, 90], the returned longitude within [-180, 180) (modulo() has the normal form a - b*floor(a/b), so on integer-valued arguments it yields an integer of [0, b-1]; one abstract pass per NL value 1..59 bounds (360/ni)*(m mod ni + cpr) below 360 before the wrap), neither coordinate can be NaN, and its integer arithmetic cannot panic. Does NOT decide the 10 m accuracy nor the converse "None only when the NL bands differ".',
    note='Static rule check, clause-limited as stated. CPR fields are taken as 17-bit values (what the deku readers produce). Trusted: MIR, float interval arithmetic with outward rounding, libm::floor model.',
    ref='DESIGN.md §7 C04'),
 'C05': dict(level='other', engine='absint+terms',
    technique='abstract interpretation with whole symbolic expressions for the decoded coordinates; path facts at every state returning Some; exhaustive evaluation of the extracted gate expression over the 59 values of NL; NL summarised by its N1 range',
    text='For airborne_position_with_reference and surface_position_with_reference, any message and any finite reference: no panic; every returned latitude is in [-90, 90] and no coordinate is NaN; every returned position passed |latitude - reference| <= half the zone height of its parity (360/60, 360/59; surface 90/60, 90/59) and |longitude - reference| <= half of Z / max(NL(decoded latitude) - i, 1) for every NL in 1..59 (Z = 360 or 90), the gates being on the very expressions returned; NL is only ever applied to the decoded latitude; the longitude tested by the gate is not shifted by 360 degrees beforehand. This decides the second sentence of the property (absent or within half a zone of the reference, latitude in range). G6: the NL decision list both decoders call equals the 59-zone formula (C04 rule N1, evaluated here too).',
    note='Static rule check. Not decided: the 10 m exactness for references within the unambiguous range (correct rounding of floor(0.5 + ref/d - cpr) over a continuum of references). Trusted: MIR, abstract interpreter (a path fact is recorded only for comparisons whose operands cannot be NaN), floor/fabs contracts, C04 rule N1 for the range of nl().',
    ref='DESIGN.md §7 C05'),
 'C06': dict(level='other', engine='absint+dataflow',
    technique='who-touches / who-calls rules on MIR (single use of the aircraft table, borrowed places at every call site), path-sensitive abstract interpretation of decode_position for an arbitrary cache entry with gate comparisons remembered as trace tags, origin tags on decoded positions',
    text='Isolation: decode_position uses the aircraft table exactly once, as entry(*icao24).or_insert(..) bound to `latest`; *reference is only stored after the caller\'s callback returned true; all six workspace call sites pass the message and the address of one record (ADSB.message/icao24, ControlField.me/aa); airborne_position receives (cached opposite-parity message of this entry, current message) and the reference decode uses this entry\'s previous position. Gates: every state storing a position into an airborne message saw timestamp - t_pair < 0 false; positions from an even/odd pair saw timestamp - t_pair < c with c <= 10; positions decoded against the previous position saw timestamp - latest.timestamp < c with c <= 180; when a previous position exists, distance > c was false with c <= 50 km; surface positions were decoded against the previous position with distance < c, c <= 1 km, or against the receiver reference. The extracted constants are printed in the evidence. The decoders decode_position relies on are checked under this property too: all rules of C04 (D4-global-decoder/*) and C05 (D5-reference-decoder/*).',
    note='Static rule check of the anchored mechanism. Isolation + pairing decide the non-interference sentence (with a fixed reference, the inputs and outputs of the function for one aircraft are its own message, its own cache entry and the reference). Not decided: that every stored position is within 25 m of the true one (needs the numerical argument relating the windows to the distance flown). Trusted: MIR, abstract interpreter, BTreeMap::entry library fact, the documented parameters.',
    ref='DESIGN.md §7 C06'),
 'C07': dict(level='other', engine='shapes',
    technique='may/must dataflow over the MIR of every Serialize impl (derived and hand-written) composing JSON shapes per enum-variant combination; serde private-serializer acceptance tables; field provenance of keys; bit positions of source fields from the abstract interpreter',
    text='Decides for every reachable combination of enum variants (not for sampled frames): the value is serialisable (nothing reached through #[serde(flatten)] or an internally tagged newtype variant uses an entry point FlatMapSerializer / TaggedSerializer rejects, and no reachable arm of a Serialize impl builds its own Error::custom, as the derive does for a #[serde(skip)] variant), the root is one object, no key is emitted twice, the df tag of DF 0,4,5,11,16,17,18,20,21 is the variant\'s deku id, icao24 exists and is fed by the address/parity field resp. the announced address read at bit 8, both written with one lower-hex template; TimedMessage always writes frame through hex::encode; no pretty writer is used.',
    note='Static rule check. serde 1.0.219 semantics transcribed in checker/shapes.py (version asserted from Cargo.lock). Non-finite numbers: serde_json writes null (library fact); "decoding the hex again gives the same fields" is determinism of decoding (C01-O4). One line: serde_json::to_string never emits a newline (library fact).',
    ref='DESIGN.md §7 C07'),
 'C08': dict(level='other', engine='absint',
    technique='modular abstract interpretation of every deku reader of the decode module (float intervals with exact round-to-nearest bounds, integer intervals, known bits, divisibility of terms, guard refinements) inspected at the struct construction sites',
    text='Decides, for every value a reader can build from any bits and any context arguments: track / heading / wind direction in [0, 360) (closed at 360 only where the code goes through atan2 and h + 360, stated in spec/ranges.json), roll within +-90, CPR counts below 2^17, vertical rates multiples of 64 / 32 within the encodable span, speeds non-negative, Mach in (0, 1], squawk bits within 0x7777, humidity in [0, 100], temperatures in [-80, 60]; every float stored in a decode-module value is finite and not NaN; both 6-bit character tables equal the Annex 10 subset and are indexed with 6-bit values; the listed structs are built nowhere but in their readers. R4: the 13-bit altitude conversion and the identity permutation (anchored mechanisms of this property) are checked with the rules of C13 (four octal digits, Gillham tables, no lossy cast).',
    note='Static rule check. Each reader is analysed on its own from an arbitrary stream with arbitrary context (an over-approximation of every context reachable from Message::try_from). Trusted: MIR, float interval arithmetic (IEEE round-to-nearest is monotone), libm models (atan2 in [-pi, pi], hypot >= 0, floor/round monotone), deku read contracts. The metric AC13 branch and FLARM are outside this property.',
    ref='DESIGN.md §7 C08'),
 'C11': dict(level='other', engine='absint+shapes',
    technique='abstract execution of the per-DF match arms compared with the serde shapes (field provenance of icao24, constant df tag); summaries of the two predicates and a case analysis of every return state',
    text='Decides for every record and every filter configuration: in each arm of Filters::is_in for DF 0,4,5,11,16,17,18,20,21 the reference handed to aircraft_in is the very field serialised under icao24 and the label handed to df_in is the serialised df tag; aircraft_in and df_in return (absent or contains or empty); is_in returns df_in only on paths where aircraft_in holds, false otherwise and false for an undecoded record.',
    note='Static rule check. Vec::contains / is_empty are treated as pure predicates of the filter list; equality of ICAO values is the derived PartialEq. DF19 / DF24+ (no aircraft address) are outside the property.',
    ref='DESIGN.md §7 C11'),
 'C12': dict(level='other', engine='absint+shapes+dataflow',
    technique='abstract execution of snapshot::icao24 against the serde shapes; resolved-callee and taint dataflow rules over the MIR of the async bodies; path queries; frozen who-touches table of the shared map',
    text='Decides: the table key is to_string() of the field shown as icao24 for each address format (and no key otherwise), written with the same template as the JSON; update_snapshot / store_history reach the table only through entry(key).or_insert(StateVectors::new(ts, key, db)) with key = icao24(message); no value written through the entry derives from another part of the table (taint dataflow); count += 1 and lastseen := timestamp happen exactly once on every path after the entry call, firstseen only in new; every other use of Jet1090.state_vectors, every writer of a Snapshot field and every mutator of a history is in the reviewed table. Together these give the interleaving clause (an entry is a function of the records carrying its key).',
    note='Static rule check. The taint dataflow is flow- and field-insensitive over locals (over-approximates flows between locals; flows through aliased heap cells other than the entry are not tracked). BTreeMap::entry(k) only exposes the value under k (library fact). spec/mutators.json is a frozen, reviewed table: a new direct use of the map is reported until reviewed.',
    ref='DESIGN.md §7 C12'),
 'C13': dict(level='other', engine='absint+terms',
    technique='guarded-operation tables extracted from branch facts of the abstract interpreter; per-input-class normal forms (affine over a bit-provenance map) compared with the standard; lossy-cast obligations',
    text='Decides for every code, by classes rather than samples: decode_id13 is the Annex 10 bit permutation with result bits within 0x7777; gray2alt decodes the 500-ft counter with the reflected-Gray prefix masks and, for each of the 8 classes of the C bits and each parity of the 500-ft counter, returns 5*F + d - 13 with the standard 100-ft digit (illegal C bits only give Err, results are non-negative); AC13Field::read and decode_ac12 return 25*N - 1000 with N the code minus Q (and M) exactly for N >= 41, feed decode_id13 with the code (M re-inserted for the 12-bit field), and contain no value-changing integer cast.',
    note='Static rule check. The step from "mask table + per-class formula" to "one-to-one onto consecutive 100 ft steps, neighbours differ in one bit" is the standard\'s own property of the reflected Gray code, not re-proved here. The metric (M = 1) branch is outside the property. Trusted: MIR, the abstract interpreter, the term normalisers, the tables transcribed from Annex 10 in checker/props/c13.py.',
    ref='DESIGN.md §7 C13'),
 'C14': dict(level='other', engine='absint',
    technique='abstract interpretation of MIR with the mapping tables evaluated row by row (Lazy / vec! / constructor arguments), data rules on the embedded patterns.json, per-address-block abstract runs of the N/JA/HL decoders, mixed-radix normal forms of the index computations',
    text='Totality: every panic obligation below tail(any u32) and aircraft_information(any &str, ..) is discharged, the data-dependent ones by rules evaluated on patterns.json of the current tree (0x-prefixed hex bounds, compilable category patterns, file deserialises into Patterns). Country: every address range in which a mapping can answer (stride/numeric rows from their evaluated constructor values; N, JA, HL by abstract runs over every address block) is assigned by patterns.json (first match, as the lookup does) to a block whose pattern admits the prefix. Aliasing: address ranges of the mappings are pairwise disjoint, prefixes do not shadow one another, same-prefix stride rows give disjoint letter triples; stride/numeric/HL are one-to-one inside a row by the shape of their computation (mixed-radix decomposition of a slope-1 offset, distinct alphabet letters, zero padding wide enough, disjoint HL ranges); every numeral position of the N and JA systems prints a single digit, and every value of those decoders that is both divided by and reduced modulo a constant uses the same constant (positional decomposition).',
    note='Static rule check. Not decided: full injectivity inside the N-number and JA numeral systems (only the single-digit necessary condition). Trusted: MIR, abstract interpreter, library contracts (Lazy, vec!, chars/position/nth over constants, String), python re on the block patterns of patterns.json.',
    ref='DESIGN.md §7 C14'),
 'C15': dict(level='other', engine='absint',
    technique='abstract interpretation of MIR (intervals with NaN flag under IEEE round-to-nearest, known multiples for shifts, exact evaluation of the XXTEA round counter, element-wise evaluation of the small iterator pipelines), path fact at the reader call',
    text='Totality: every panic obligation below Flarm::from_record(any u32, any [f64; 2] including NaN and infinities, any byte string) is discharged (indices into the 5 decrypted words and the 4 key words, 32-bit position arithmetic, shifts, casts), no recursion, both XXTEA loops finish within a fixed number of iterations for every input. Finiteness: every float field of every Ok record is finite; the two reference fields are byte copies of the argument, which is shown finite on every path reaching the reader. Track: 0 <= track < 360 in every Ok record. No clock / environment / randomness below the entry. Necessary conditions of the round trip: decode_latitude / decode_longitude stay within, and reach both ends of, the window of the 19 / 20-bit field around constant references; make_key selects its key table by exactly bit 23 of the timestamp and the two tables are the published ones.',
    note='Static rule check. Not decided: that a packet built and encrypted by an independent implementation decodes to the same fields (round trip); key-table selection and position reconstruction are only covered for totality/finiteness. Trusted: MIR, abstract interpreter, contracts for deku primitive reads, Vec, iterator adaptors, libm atan2/sqrt, f64::rem_euclid (closed upper bound).',
    ref='DESIGN.md §7 C15'),
 'C16': dict(level='proof', engine='absint',
    technique='abstract interpretation of MIR with url/regex/serde-data contracts evaluated on the literals and data files; effect closure; format-template comparison',
    text='Every panic obligation below <Source as FromStr>::from_str and <Position as FromStr>::from_str is discharged for an arbitrary &str; constant-argument calls (Url::parse literal, Regex::new literals, the airports table parsed behind Lazy) are re-validated on the current literal / data file; Source::serial reaches no clock/random/env effect (DefaultHasher has fixed keys), formats the table form from exactly (address, port), with the same template as the string form.',
    note='Trusted: rustc MIR, contracts in checker/models.py for url 2.x (special schemes have a known default port and a path starting with "/"), regex/url literal rules, serde derive (non-Option fields required, unknown fields ignored). "Well-formed specifications yield that endpoint" is not decided beyond the template/argument rules.',
    ref='DESIGN.md §7 C16'),
 'C17': dict(level='proof', engine='absint',
    technique='abstract interpretation of MIR with a symbolic table length and zone facts (i < len); exhaustive input-class partition of update() compared with the documented key table',
    text='Every panic obligation of update() and of Jet1090::{next, previous, home} is discharged for any table size including 0 under the selection invariant, the invariant is shown inductive on every return state (j = 0 when empty, j < len otherwise), and update() is executed abstractly once per input class (search mode x key code, characters split at the documented keys, Tick, Error): every field of the UI state is unchanged unless the documented (mode, key) pair says otherwise, and then takes the documented value.',
    note='Trusted: rustc MIR; ghost model of ratatui TableState::{select, selected}; MutexGuard deref yields one guarded value; ScrollbarState::position total; spec/keys.json transcribes the documented bindings. Sequences of events follow by induction on the invariant; rows are rebuilt elsewhere (table.rs) and that code is not part of this property\'s anchors.',
    ref='DESIGN.md §7 C17'),
 'C18': dict(level='proof', engine='absint',
    technique='abstract interpretation of MIR (intervals + symbolic terms), normal-form comparison',
    text='Every overflow/division Assert of the two conversion functions is discharged by interval analysis over the whole stated domain, and the symbolic result term is normalised and compared with the closed form the property states; sound for all inputs, not sampled.',
    note='Trusted: rustc MIR (nightly, opt-level 0), the interval/term engine in checker/absint.py, the normaliser in checker/terms.py. Domain: t in [0, 604800e9) ns and s in [315964800, 2^40] s.',
    ref='DESIGN.md §7 C18'),
}

NOT_APPLICABLE = {
 'C09': 'equality of two output sequences over all frame sequences x all chunkings of a hand-written in-place state machine inside an async generator: no sound structural rule in reach that would not also fire on behaviour-preserving edits (DESIGN.md §8)',
 'C10': 'conservation / once-per-window / ordering over whole arrival histories; the heap/map stay-in-step invariant relates the contents of two containers, outside every domain built here (DESIGN.md §8)',
}


def main():
    props = [json.loads(l) for l in open(os.path.join(VERIF, 'properties.jsonl'))]
    fixes = []
    try:
        out = subprocess.run(['git', '-C', '/repo', 'log', '--format=%h %s'], stdout=subprocess.PIPE, text=True).stdout
        fixes = [l.split()[0] for l in out.splitlines() if l.split(' ', 1)[1].startswith('fix:')]
    except Exception:
        pass
    checks, na = [], []
    for p in props:
        pid = p['id']
        if pid in CLAIMED:
            c = CLAIMED[pid]
            checks.append({'property_id': pid, 'quick_cmd': './check %s quick' % pid, 'thorough_cmd': './check %s thorough' % pid,
                           'evidence_file': '/verif/evidence/%s.json' % pid, 'replay_cmd_template': './check %s --explain {path}' % pid,
                           'engine': c['engine'], 'level_claimed': {'category': c['level'], 'text': c['text'], 'design_ref': c['ref']},
                           'level_note': c['note'], 'technique': c['technique']})
        elif pid in NOT_APPLICABLE:
            na.append({'property_id': pid, 'reason': NOT_APPLICABLE[pid]})
        else:
            na.append({'property_id': pid, 'reason': 'not claimed yet: its checker is not committed in this build round (engine under construction); no verdict is given'})
    claimed = [c['property_id'] for c in checks]
    m = {'version': 1, 'setup_cmd': './setup.sh',
         'hooks': {'guard': 'xoolive_rs1090_verif',
                   'enable': 'none needed: the checks read the MIR of the unmodified sources; no hook was added to /repo',
                   'baseline_off_cmd': 'cd /repo && cargo test --workspace --no-fail-fast --offline',
                   'source_commits': fixes, 'add_only': True},
         'engines': [{'name': 'vdrv', 'path': 'driver/', 'serves_properties': claimed,
                      'kind_free_text': 'rustc_private driver (nightly) exporting MIR, resolved callees, evaluated constants and types of the three analysed workspace crates as JSON facts'},
                     {'name': 'absint', 'path': 'checker/absint.py', 'serves_properties': claimed,
                      'kind_free_text': 'abstract interpreter over MIR: intervals, known bits, symbolic terms and path facts, bounded disjuncts with trace partitioning, abstract inlining, library contracts (checker/models.py)'}],
         'checks': checks, 'not_applicable': na,
         'notes': 'Static analysis only: every check decides its property (or the named clauses of it) from the MIR of /repo\'s current working tree; nothing runs the code under analysis. Exit 2 = tree does not build / machinery failure.'}
    with open(os.path.join(VERIF, 'MANIFEST.json'), 'w') as fh:
        json.dump(m, fh, indent=1)
    print('manifest: %d claimed, %d not claimed' % (len(checks), len(na)))


if __name__ == '__main__':
    main()
