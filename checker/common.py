"""Shared check infrastructure: result collection, known findings, evidence, exit codes."""
import json
import os
import sys
import time

VERIF = os.path.dirname(os.path.dirname(os.path.abspath(__file__)))
EVID = os.environ.get('VERIF_EVIDENCE_DIR') or os.path.join(VERIF, 'evidence')
REPLAY = os.path.join(EVID, 'replay')

LEVELS = {}   # property id -> level, filled from MANIFEST.json


class Finding:
    """one open obligation / rule violation.  `key` is stable (no line numbers)."""

    def __init__(self, key, rule, site, detail, fn=None, path=None, state=None):
        self.key = key
        self.rule = rule
        self.site = site
        self.detail = detail
        self.fn = fn
        self.path = path
        self.state = state

    def to_json(self):
        return {'key': self.key, 'rule': self.rule, 'site': self.site, 'detail': self.detail,
                'function': self.fn, 'reached_via': self.path, 'state': self.state}


class Report:
    def __init__(self, pid, tier):
        self.pid = pid
        self.tier = tier
        self.t0 = time.time()
        self.obligations = 0          # rule instances / proof obligations evaluated
        self.discharged = 0
        self.nontrivial = set()       # distinct non-trivial instance keys
        self.samples = []
        self._sample_sigs = set()
        self.findings = []
        self.rules = {}               # rule name -> {'instances': n, 'open': n}
        self.notes = []
        self.trusted = []
        self.assumptions = []
        self.extra = {}
        self.explanation = ''

    def rule(self, name):
        return self.rules.setdefault(name, {'instances': 0, 'open': 0})

    def ok(self, rule, key, nontrivial=True, sample=None):
        self.obligations += 1
        self.discharged += 1
        self.rule(rule)['instances'] += 1
        if nontrivial:
            self.nontrivial.add(key)
        if sample is not None and len(self.samples) < 24:
            # at most one sample per (rule, field / key) and ten per rule: the samples show the breadth of a run
            sig = (rule, str(sample.get('field') or sample.get('type') or sample.get('fn') or key))
            per_rule = sum(1 for s_ in self._sample_sigs if s_[0] == rule)
            if sig not in self._sample_sigs and per_rule < 10:
                self._sample_sigs.add(sig)
                self.samples.append(sample)

    def fail(self, rule, key, site, detail, **kw):
        self.obligations += 1
        r = self.rule(rule)
        r['instances'] += 1
        r['open'] += 1
        self.nontrivial.add(key)
        self.findings.append(Finding(key, rule, site, detail, **kw))

    def check(self, cond, rule, key, site, detail, nontrivial=True, sample=None, **kw):
        if cond:
            self.ok(rule, key, nontrivial, sample)
        else:
            self.fail(rule, key, site, detail, **kw)
        return cond

    def missing(self, what, why=''):
        """fail closed: an anchor of the property was not found in a tree that compiles"""
        self.fail('anchor-missing', 'anchor-missing#' + what, '-',
                  'anchor not found: %s %s' % (what, why))

    def floor(self, what, got, minimum):
        if got < minimum:
            self.fail('anchor-missing', 'floor#' + what, '-',
                      'count for %s fell to %d (floor %d): the rule would pass vacuously' % (what, got, minimum))
        else:
            self.extra.setdefault('floors', {})[what] = {'got': got, 'floor': minimum}

    def absorb_engine(self, E, rule='O1-panic-freedom', entry=None, keyfilter=None):
        """take over the obligations of an abstract-interpreter run"""
        obl = E.obligations()
        n = 0
        for k in sorted(obl):
            o = obl[k]
            if keyfilter is not None and not keyfilter(o):
                continue
            n += 1
            if o['ok']:
                self.ok(rule, k, o['nontrivial'],
                        {'obligation': k, 'site': o['site'], 'instances': o['instances'], 'verdict': 'discharged'}
                        if o['nontrivial'] and (n % 97 == 1) else None)
            else:
                ob = o['open'][0]
                via = [p[0] if isinstance(p[0], str) else p[0][1] for p in ob.path]
                self.fail(rule, k, o['site'], ob.detail or o['kind'], fn=o['fn'], path=via[-6:])
        return n


def load_known():
    p = os.path.join(VERIF, 'known_findings.json')
    if not os.path.exists(p):
        return {'known': [], 'fixed': []}
    with open(p) as fh:
        return json.load(fh)


def finish(rep, level):
    """write evidence, print KNOWN-FINDING / VIOLATION lines, return the exit code"""
    os.makedirs(REPLAY, exist_ok=True)
    known = load_known()
    kmap = {}
    for k in known.get('known', []):
        if k['property'] == rep.pid:
            kmap[k['key']] = k
    new = []
    listed = []
    seen_keys = set()
    uniq = []
    for f in rep.findings:
        if f.key not in seen_keys:
            seen_keys.add(f.key)
            uniq.append(f)
    for f in uniq:
        if f.key in kmap:
            listed.append(f)
        else:
            new.append(f)
    for f in listed:
        print('KNOWN-FINDING: property=%s %s %s' % (rep.pid, f.key, kmap[f.key].get('what', f.detail)))
    # old replay files of this property
    for fn in os.listdir(REPLAY):
        if fn.startswith(rep.pid + '-'):
            os.unlink(os.path.join(REPLAY, fn))
    for i, f in enumerate(new):
        path = os.path.join(REPLAY, '%s-%d.json' % (rep.pid, i + 1))
        with open(path, 'w') as fh:
            json.dump({'property': rep.pid, 'tier': rep.tier, **f.to_json()}, fh, indent=1, default=str)
        print('VIOLATION property=%s replay=%s' % (rep.pid, path))
        print('  rule   %s' % f.rule)
        print('  site   %s' % f.site)
        print('  key    %s' % f.key)
        print('  detail %s' % f.detail)
        if f.path:
            print('  via    %s' % ' > '.join(str(x) for x in f.path))
    wall = time.time() - rep.t0
    cov = {
        'obligations': rep.obligations,
        'discharged': rep.discharged + len(listed),
        'evaluations': rep.obligations,
        'distinct_nontrivial': len(rep.nontrivial),
        'rule': 'one evaluation = one rule instance / proof obligation decided on the MIR of the current tree; '
                'non-trivial = its verdict needed a non-constant abstract value, a table comparison or a path fact '
                '(instances with all-constant operands are counted as trivial); distinct by stable obligation key',
        'samples': rep.samples[:24] if rep.samples else [{'note': 'no sample recorded'}],
        'checker_cmd': './check %s %s' % (rep.pid, rep.tier),
        'trusted_base': rep.trusted or ['rustc MIR semantics (nightly, mir-opt-level=0)', 'library contracts in checker/models.py',
                                        'the abstract interpreter checker/absint.py'],
        'explanation': rep.explanation,
        'rules': rep.rules,
        'known_findings_matched': [f.key for f in listed],
        'notes': rep.notes,
    }
    cov.update(rep.extra)
    ev = {
        'property_id': rep.pid,
        'tier': rep.tier,
        'seed': int(os.environ.get('VERIF_SEED', '0') or 0),
        'level': level,
        'coverage': cov,
        'assumptions': rep.assumptions,
        'wall_s': round(wall, 2),
        'violations': len(new),
    }
    os.makedirs(EVID, exist_ok=True)
    tmp = os.path.join(EVID, rep.pid + '.json.tmp%d' % os.getpid())
    with open(tmp, 'w') as fh:
        json.dump(ev, fh, indent=1, default=str)
    os.replace(tmp, os.path.join(EVID, rep.pid + '.json'))
    print('[%s %s] %d rule instances, %d open (%d known), %d distinct non-trivial, %.1fs'
          % (rep.pid, rep.tier, rep.obligations, len(rep.findings), len(listed), len(rep.nontrivial), wall))
    return 1 if new else 0
