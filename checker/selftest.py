"""Checker self-test: apply one-line mutants (selftest/catalog.json) to a scratch copy of /repo's
current tree and require the named check to fire on the named rule instance; and to be silent on
the unpatched copy.  usage: selftest.py [Cxx ...] [--only id]"""
import json
import os
import shutil
import subprocess
import sys
import tempfile

VERIF = os.path.dirname(os.path.dirname(os.path.abspath(__file__)))


def main():
    args = sys.argv[1:]
    only = None
    if '--only' in args:
        only = args[args.index('--only') + 1]
        args = [a for a in args if a not in ('--only', only)]
    props = set(args)
    with open(os.path.join(VERIF, 'selftest', 'catalog.json')) as fh:
        cat = json.load(fh)
    repo = os.environ.get('VERIF_REPO', '/repo')
    bad = 0
    ran = 0
    for m in cat:
        if props and m['property'] not in props:
            continue
        if only and m['id'] != only:
            continue
        scratch = tempfile.mkdtemp(prefix='vst-')
        try:
            subprocess.run(['rsync', '-a', '--exclude', 'target', '--exclude', '.git', repo + '/', scratch + '/'], check=True)
            for ed in m['edits']:
                p = os.path.join(scratch, ed['file'])
                s = open(p).read()
                if 'nth' in ed:
                    # the anchor occurs several times (sibling functions): edit the nth occurrence, `count` must match
                    parts = s.split(ed['old'])
                    if len(parts) - 1 != ed.get('count', len(parts) - 1) or ed['nth'] >= len(parts) - 1:
                        print('SELFTEST %s: anchor text found %d times in %s (catalog out of date)' % (m['id'], len(parts) - 1, ed['file']))
                        bad += 1
                        break
                    k = ed['nth']
                    open(p, 'w').write(ed['old'].join(parts[:k + 1]) + ed['new'] + ed['old'].join(parts[k + 1:]))
                    continue
                if s.count(ed['old']) != 1:
                    print('SELFTEST %s: anchor text found %d times in %s (catalog out of date)' % (m['id'], s.count(ed['old']), ed['file']))
                    bad += 1
                    break
                open(p, 'w').write(s.replace(ed['old'], ed['new']))
            else:
                env = dict(os.environ, VERIF_REPO=scratch, VERIF_EVIDENCE_DIR=os.path.join(scratch, '.evidence'))
                r = subprocess.run([os.path.join(VERIF, 'check'), m['property'], 'quick'], env=env,
                                   stdout=subprocess.PIPE, stderr=subprocess.PIPE, text=True)
                ran += 1
                fired = r.returncode == 1 and 'VIOLATION property=%s' % m['property'] in r.stdout
                named = m.get('expect', '') in r.stdout
                if fired and named:
                    print('SELFTEST %s: ok (fires, names %s)' % (m['id'], m.get('expect')))
                else:
                    bad += 1
                    print('SELFTEST %s: FAILED rc=%d fired=%s named=%s' % (m['id'], r.returncode, fired, named))
                    print(r.stdout[-1500:])
                    print(r.stderr[-800:])
        finally:
            shutil.rmtree(scratch, ignore_errors=True)
    print('selftest: %d mutants run, %d failures' % (ran, bad))
    return 1 if bad else 0


if __name__ == '__main__':
    sys.exit(main())
