"""Confirm a seeded defect delivered by a sub-agent and run the registered check against it.

usage: seedtest.py <property> <worktree> <k> [--name short-name]
  <worktree>/SEED/change<k>.diff, demo<k>.diff, notes<k>.md
Steps (all in the scratch worktree, never in /repo, except the final check run which applies the
patch to /repo and reverts it straight afterwards):
  1. change applied  -> `cargo test --workspace --offline` passes
  2. change + demo   -> fails
  3. demo only       -> passes
  4. /repo + change  -> ./check <property> quick  (expect exit 1 + VIOLATION)
Writes /verif/seeded/<property>-<name>/{patch.diff, demo.diff, notes.md, meta.json}."""
import json
import os
import shutil
import subprocess
import sys

VERIF = os.path.dirname(os.path.dirname(os.path.abspath(__file__)))


def sh(cmd, cwd, env=None, timeout=3600):
    r = subprocess.run(cmd, cwd=cwd, shell=True, stdout=subprocess.PIPE, stderr=subprocess.STDOUT, text=True, env=env, timeout=timeout)
    return r.returncode, r.stdout


def tests(wt):
    env = dict(os.environ, CARGO_TARGET_DIR=os.path.join(wt, 'target'), CARGO_NET_OFFLINE='true')
    rc, out = sh('cargo test --workspace --offline 2>&1', wt, env)
    ok = 'test result: FAILED' not in out and 'error: ' not in out and 'error[' not in out and out.count('test result: ok') >= 3
    passed = sum(int(l.split('ok. ')[1].split(' passed')[0]) for l in out.splitlines() if l.startswith('test result: ok.'))
    return ok, passed, out[-1500:]


def main():
    prop, wt, k = sys.argv[1], sys.argv[2], sys.argv[3]
    name = sys.argv[sys.argv.index('--name') + 1] if '--name' in sys.argv else 's%s' % k
    seed = os.path.join(wt, 'SEED')
    change = os.path.join(seed, 'change%s.diff' % k)
    demo = os.path.join(seed, 'demo%s.diff' % k)
    meta = {'property': prop, 'source': 'independent sub-agent given only the property text and a scratch worktree', 'ran': []}
    sh('git checkout -- . && git clean -fdq -e SEED -e target', wt)
    rc, out = sh('git apply %s' % change, wt)
    if rc:
        print('cannot apply change:', out)
        return 2
    ok1, n1, o1 = tests(wt)
    meta['ran'].append({'step': 'change applied: cargo test --workspace --offline', 'passes': ok1, 'tests_passed': n1})
    rc, out = sh('git apply %s' % demo, wt)
    if rc:
        print('cannot apply demo:', out)
        return 2
    ok2, n2, o2 = tests(wt)
    meta['ran'].append({'step': 'change + demonstration', 'passes': ok2, 'tail': o2[-400:]})
    sh('git apply -R %s' % change, wt)
    ok3, n3, o3 = tests(wt)
    meta['ran'].append({'step': 'demonstration only (unchanged code)', 'passes': ok3, 'tests_passed': n3})
    sh('git checkout -- . && git clean -fdq -e SEED -e target', wt)
    confirmed = ok1 and n1 >= 46 and (not ok2) and ok3
    meta['confirmed'] = confirmed
    print('confirm: change keeps suite green=%s (%d), demo fails with change=%s, demo passes without=%s' % (ok1, n1, not ok2, ok3))
    if not confirmed:
        print(o1[-600:], o2[-600:], o3[-600:])
        return 1
    # run the registered check against /repo + change
    # run the registered check on the tree with the change applied.  By default the scratch worktree itself is the
    # analysed tree (VERIF_REPO), so that sweeps copying /repo at the same time never see a seed; with
    # SEEDTEST_IN_REPO=1 the patch is applied to /repo and reverted straight afterwards.
    if os.environ.get('SEEDTEST_IN_REPO'):
        import fcntl
        lock = open('/tmp/seedtest.lock', 'w')
        fcntl.flock(lock, fcntl.LOCK_EX)     # one seed at a time in /repo
        rc, out = sh('git -C /repo apply %s' % change, '/repo')
        if rc:
            print('cannot apply to /repo', out)
            return 2
        try:
            env = dict(os.environ, VERIF_EVIDENCE_DIR='/tmp/seedtest-evidence')
            rc, out = sh('./check %s quick' % prop, VERIF, env)
        finally:
            sh('git -C /repo checkout -- .', '/repo')
            fcntl.flock(lock, fcntl.LOCK_UN)
        how = './check %s quick (patch applied to /repo, reverted afterwards)' % prop
    else:
        rc, out = sh('git apply %s' % change, wt)
        if rc:
            print('cannot re-apply change', out)
            return 2
        try:
            env = dict(os.environ, VERIF_REPO=wt, VERIF_EVIDENCE_DIR=os.path.join(wt, 'SEED', '.evidence'))
            rc, out = sh('./check %s quick' % prop, VERIF, env)
        finally:
            sh('git checkout -- . && git clean -fdq -e SEED -e target', wt)
        how = 'VERIF_REPO=<scratch worktree with the patch applied> ./check %s quick' % prop
    caught = rc == 1 and ('VIOLATION property=%s' % prop) in out
    lines = [l for l in out.splitlines() if l.startswith(('VIOLATION', '  rule', '  key', '  detail'))][:12]
    meta['check'] = {'cmd': how, 'exit': rc, 'caught': caught, 'report': lines}
    print('check exit %d caught=%s' % (rc, caught))
    print('\n'.join(lines))
    dst = os.path.join(VERIF, 'seeded', '%s-%s' % (prop, name))
    os.makedirs(dst, exist_ok=True)
    shutil.copy(change, os.path.join(dst, 'patch.diff'))
    shutil.copy(demo, os.path.join(dst, 'demo.diff'))
    notes = os.path.join(seed, 'notes%s.md' % k)
    if os.path.exists(notes):
        shutil.copy(notes, os.path.join(dst, 'notes.md'))
        meta['needs_to_manifest'] = 'see notes.md'
    with open(os.path.join(dst, 'meta.json'), 'w') as fh:
        json.dump(meta, fh, indent=1)
    return 0 if caught else 3


if __name__ == '__main__':
    sys.exit(main())
