"""Normal forms of integer terms built by the abstract interpreter (used by C18, C13, C02)."""


class NotNormal(Exception):
    pass


def quasi_linear(t, param):
    """term -> {'c': const, 'a': coefficient of param, 'floors': [(coef, (a, c), d)]}
    meaning  c + a*param + sum coef * floor((a_i*param + c_i) / d_i).
    Only +, -, * by constant and / by positive constant (of a linear form or of a single floor)
    are accepted; anything else raises NotNormal (the caller fails closed)."""
    if t is None:
        raise NotNormal('no term')
    op = t[0]
    if t == param:
        return {'c': 0, 'a': 1, 'floors': []}
    if op == 'c':
        if not isinstance(t[1], int):
            raise NotNormal('non-integer constant')
        return {'c': t[1], 'a': 0, 'floors': []}
    if op in ('Add', 'Sub') and len(t) == 3:
        x = quasi_linear(t[1], param)
        y = quasi_linear(t[2], param)
        s = 1 if op == 'Add' else -1
        return {'c': x['c'] + s * y['c'], 'a': x['a'] + s * y['a'],
                'floors': x['floors'] + [(s * k, l, d) for k, l, d in y['floors']]}
    if op == 'Mul' and len(t) == 3:
        x = quasi_linear(t[1], param)
        y = quasi_linear(t[2], param)
        for p, q in ((x, y), (y, x)):
            if p['a'] == 0 and not p['floors']:
                k = p['c']
                return {'c': k * q['c'], 'a': k * q['a'], 'floors': [(k * kk, l, d) for kk, l, d in q['floors']]}
        raise NotNormal('product of two non-constants')
    if op == 'Div' and len(t) == 3:
        x = quasi_linear(t[1], param)
        y = quasi_linear(t[2], param)
        if y['a'] != 0 or y['floors'] or y['c'] <= 0:
            raise NotNormal('division by a non-constant or non-positive value')
        d = y['c']
        if not x['floors']:
            return {'c': 0, 'a': 0, 'floors': [(1, (x['a'], x['c']), d)]}
        if x['c'] == 0 and x['a'] == 0 and len(x['floors']) == 1 and x['floors'][0][0] == 1:
            _, l, d0 = x['floors'][0]
            return {'c': 0, 'a': 0, 'floors': [(1, l, d0 * d)]}     # floor(floor(u/p)/q) = floor(u/(pq)), p,q > 0
        raise NotNormal('division of a compound form')
    raise NotNormal('operator %s' % op)


def mod_form(t, param):
    """t = Rem(X, const D) with X linear in param -> (a, c, D)"""
    if t is None or t[0] != 'Rem' or len(t) != 3:
        raise NotNormal('not a remainder at top level')
    x = quasi_linear(t[1], param)
    y = quasi_linear(t[2], param)
    if x['floors'] or y['floors'] or y['a'] != 0 or y['c'] <= 0:
        raise NotNormal('remainder of / by a non-linear form')
    return x['a'], x['c'], y['c']
