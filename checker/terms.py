"""Normal forms of integer terms built by the abstract interpreter (used by C18, C13, C02)."""


class NotNormal(Exception):
    pass


def quasi_linear(t, param):
    """term -> {'c': const, 'a': coefficient of param, 'floors': [(coef, (a, c), d)]}
    meaning  c + a*param + sum coef * floor((a_i*param + c_i) / d_i).
    Only +, -, * by constant and / by positive constant (of a linear form or of a single floor)
    are accepted; anything else raises NotNormal (the caller fails closed)."""
    if t is None:
        raise NotNormal('no term')
    op = t[0]
    if t == param:
        return {'c': 0, 'a': 1, 'floors': []}
    if op == 'c':
        if not isinstance(t[1], int):
            raise NotNormal('non-integer constant')
        return {'c': t[1], 'a': 0, 'floors': []}
    if op in ('Add', 'Sub') and len(t) == 3:
        x = quasi_linear(t[1], param)
        y = quasi_linear(t[2], param)
        s = 1 if op == 'Add' else -1
        return {'c': x['c'] + s * y['c'], 'a': x['a'] + s * y['a'],
                'floors': x['floors'] + [(s * k, l, d) for k, l, d in y['floors']]}
    if op == 'Mul' and len(t) == 3:
        x = quasi_linear(t[1], param)
        y = quasi_linear(t[2], param)
        for p, q in ((x, y), (y, x)):
            if p['a'] == 0 and not p['floors']:
                k = p['c']
                return {'c': k * q['c'], 'a': k * q['a'], 'floors': [(k * kk, l, d) for kk, l, d in q['floors']]}
        raise NotNormal('product of two non-constants')
    if op == 'Div' and len(t) == 3:
        x = quasi_linear(t[1], param)
        y = quasi_linear(t[2], param)
        if y['a'] != 0 or y['floors'] or y['c'] <= 0:
            raise NotNormal('division by a non-constant or non-positive value')
        d = y['c']
        if not x['floors']:
            return {'c': 0, 'a': 0, 'floors': [(1, (x['a'], x['c']), d)]}
        if x['c'] == 0 and x['a'] == 0 and len(x['floors']) == 1 and x['floors'][0][0] == 1:
            _, l, d0 = x['floors'][0]
            return {'c': 0, 'a': 0, 'floors': [(1, l, d0 * d)]}     # floor(floor(u/p)/q) = floor(u/(pq)), p,q > 0
        raise NotNormal('division of a compound form')
    raise NotNormal('operator %s' % op)


def mod_form(t, param):
    """t = Rem(X, const D) with X linear in param -> (a, c, D)"""
    if t is None or t[0] != 'Rem' or len(t) != 3:
        raise NotNormal('not a remainder at top level')
    x = quasi_linear(t[1], param)
    y = quasi_linear(t[2], param)
    if x['floors'] or y['floors'] or y['a'] != 0 or y['c'] <= 0:
        raise NotNormal('remainder of / by a non-linear form')
    return x['a'], x['c'], y['c']


ARITH = ('Add', 'Sub', 'Mul')


def affine_over(t):
    """t = a*N + c with N the (single) maximal non-arithmetic sub-term -> (a, c, N)"""
    atoms = []

    def walk(x):
        if x is None:
            raise NotNormal('no term')
        if x[0] == 'c':
            if not isinstance(x[1], int):
                raise NotNormal('float constant')
            return (0, x[1])
        if x[0] in ARITH and len(x) == 3:
            a1, c1 = walk(x[1])
            a2, c2 = walk(x[2])
            if x[0] == 'Add':
                return (a1 + a2, c1 + c2)
            if x[0] == 'Sub':
                return (a1 - a2, c1 - c2)
            if a1 == 0:
                return (c1 * a2, c1 * c2)
            if a2 == 0:
                return (a1 * c2, c1 * c2)
            raise NotNormal('non-linear product')
        if x[0] == 'trunc':
            return walk(x[1])
        if not atoms:
            atoms.append(x)
        elif atoms[0] != x:
            raise NotNormal('two different non-arithmetic sub-terms')
        return (1, 0)
    a, c = walk(t)
    if not atoms:
        raise NotNormal('constant')
    return a, c, atoms[0]


def bit_form(t, width=16):
    """term built from one atom with & | << >> by constants -> ({out bit: in bit}, atom).
    Bits not in the map are 0.  Overlapping ORs of different sources raise NotNormal."""
    atom = []

    def walk(x):
        op = x[0]
        if op == 'c':
            if x[1] != 0:
                raise NotNormal('non-zero constant in a bit expression')
            return {}
        if op in ('BitAnd', 'BitOr', 'Shl', 'Shr') and len(x) == 3:
            l, r = x[1], x[2]
            if op == 'BitAnd':
                if r[0] == 'c':
                    m = walk(l)
                    return {k: v for k, v in m.items() if (r[1] >> k) & 1}
                if l[0] == 'c':
                    m = walk(r)
                    return {k: v for k, v in m.items() if (l[1] >> k) & 1}
                raise NotNormal('and of two non-constants')
            if op == 'BitOr':
                a, b = walk(l), walk(r)
                for k in a:
                    if k in b and b[k] != a[k]:
                        raise NotNormal('overlapping or')
                a = dict(a)
                a.update(b)
                return a
            if r[0] != 'c':
                raise NotNormal('shift by a non-constant')
            m = walk(l)
            if op == 'Shl':
                return {k + r[1]: v for k, v in m.items() if k + r[1] < width}
            return {k - r[1]: v for k, v in m.items() if k - r[1] >= 0}
        if op == 'trunc':
            m = walk(x[1])
            return {k: v for k, v in m.items() if k < x[2][1]}
        if op in ARITH or op in ('Rem', 'Div', 'BitXor', 'Not'):
            raise NotNormal('operator %s in a bit expression' % op)
        if not atom:
            atom.append(x)
        elif atom[0] != x:
            raise NotNormal('two atoms')
        return {k: k for k in range(width)}
    m = walk(t)
    return m, (atom[0] if atom else None)


def divisor(t, depth=0):
    """largest d known to divide the integer denoted by t (0 means: the value is 0)"""
    from math import gcd
    if t is None or depth > 12:
        return 1
    op = t[0]
    if op == 'c':
        return abs(t[1]) if isinstance(t[1], int) else 1
    if op == 'jd':
        return t[2]
    if op == 'dvhint':
        return t[1]
    if op == 'Mul' and len(t) == 3:
        a, b = divisor(t[1], depth + 1), divisor(t[2], depth + 1)
        return a * b
    if op in ('Add', 'Sub') and len(t) == 3:
        return gcd(divisor(t[1], depth + 1), divisor(t[2], depth + 1))
    if op == 'Shl' and len(t) == 3 and t[2][0] == 'c':
        return divisor(t[1], depth + 1) << t[2][1]
    if op == 'trunc':
        return 1 if divisor(t[1], depth + 1) == 1 else _pow2_part(divisor(t[1], depth + 1))
    return 1


def _pow2_part(d):
    if d == 0:
        return 0
    return d & -d


def atoms_of(t, acc=None, depth=0):
    """non-constant leaves (atoms) of a term: everything that is not an arithmetic / comparison node"""
    if acc is None:
        acc = set()
    if t is None or depth > 80:
        return acc
    op = t[0]
    if op == 'c':
        return acc
    if op in POINT_OPS and all(isinstance(x, tuple) for x in t[1:]):
        for x in t[1:]:
            atoms_of(x, acc, depth + 1)
        return acc
    acc.add(t)
    return acc


POINT_OPS = {'Add', 'Sub', 'Mul', 'Div', 'Rem', 'itof', 'floor', 'fabs', 'Shr', 'Shl', 'BitAnd', 'BitOr', 'BitXor', 'Neg',
             'Eq', 'Ne', 'Lt', 'Le', 'Gt', 'Ge', 'sqrt', 'min', 'max', 'ftof32', 'trunc', 'And', 'Or', 'Not', 'tbl'}


def point_eval(t, env, depth=0):
    """value of a term when every atom has the value env[atom]; floats follow IEEE double arithmetic
    (python floats), integers are exact.  Raises NotNormal on an operator outside POINT_OPS."""
    import math
    if t is None or depth > 80:
        raise NotNormal('no term')
    op = t[0]
    if op == 'c':
        return t[1]
    if t in env:
        return env[t]
    if op not in POINT_OPS:
        raise NotNormal('operator %s' % op)
    a = [point_eval(x, env, depth + 1) for x in t[1:] if isinstance(x, tuple)]
    isf = any(isinstance(x, float) for x in a)
    if op == 'Add':
        return a[0] + a[1]
    if op == 'Sub':
        return a[0] - a[1]
    if op == 'Mul':
        return a[0] * a[1]
    if op == 'Div':
        if isf:
            if a[1] == 0:
                if a[0] == 0 or a[0] != a[0]:
                    return float('nan')
                return math.copysign(float('inf'), a[0]) * math.copysign(1.0, a[1])
            return a[0] / a[1]
        if a[1] == 0:
            raise NotNormal('integer division by zero')
        q = abs(a[0]) // abs(a[1])
        return q if (a[0] >= 0) == (a[1] >= 0) else -q
    if op == 'Rem':
        if isf:
            return math.fmod(a[0], a[1])
        if a[1] == 0:
            raise NotNormal('integer remainder by zero')
        r = abs(a[0]) % abs(a[1])
        return r if a[0] >= 0 else -r
    if op == 'itof':
        return float(a[0])
    if op == 'floor':
        return float(math.floor(a[0])) if a[0] == a[0] and abs(a[0]) != float('inf') else a[0]
    if op == 'fabs':
        return abs(a[0])
    if op == 'sqrt':
        return math.sqrt(a[0]) if a[0] >= 0 else float('nan')
    if op == 'Neg':
        return -a[0]
    if op == 'Shr':
        return a[0] >> a[1]
    if op == 'Shl':
        return a[0] << a[1]
    if op == 'BitAnd':
        return a[0] & a[1]
    if op == 'BitOr':
        return a[0] | a[1]
    if op == 'BitXor':
        return a[0] ^ a[1]
    if op == 'tbl':
        tab = env.get('__tables__', {}).get(a[0])
        if tab is None or not (0 <= a[1] < len(tab)):
            raise NotNormal('table lookup outside a known table')
        return tab[a[1]]
    if op == 'trunc':
        x, bits, signed = a
        x &= (1 << bits) - 1
        if signed and x >> (bits - 1):
            x -= 1 << bits
        return x
    if op == 'ftof32':
        import struct
        return struct.unpack('<f', struct.pack('<f', a[0]))[0]
    if op == 'And':
        return int(bool(a[0]) and bool(a[1]))
    if op == 'Or':
        return int(bool(a[0]) or bool(a[1]))
    if op == 'Not':
        return int(not a[0])
    if op in ('min', 'max'):
        return min(a) if op == 'min' else max(a)
    if op in ('Eq', 'Ne', 'Lt', 'Le', 'Gt', 'Ge'):
        x, y = a
        return int({'Eq': x == y, 'Ne': x != y, 'Lt': x < y, 'Le': x <= y, 'Gt': x > y, 'Ge': x >= y}[op])
    raise NotNormal('operator %s' % op)
