"""C12 - the state-vector table attributes every update to the right aircraft only.

S1  snapshot::icao24 returns, per DF variant, to_string() of exactly the field the serializer writes
    under `icao24` (DF 0, 4, 5, 11, 16, 17, 18, 20, 21) and None for the other formats; Display and
    Serialize of the two address types use the same lower-hex template.
S2  in update_snapshot / store_history the table is only reached through
    entry(<icao24(message)>.to_string()).or_insert(StateVectors::new(ts, <icao24(message)>, db)),
    and nothing written through the returned entry is derived from the table other than through
    that entry (taint dataflow: sources of every right-hand side are the record, its timestamp,
    its metadata, the aircraft database, constants, the entry itself).
S3  count += 1 and lastseen := timestamp are executed exactly once on every path after the entry
    call; firstseen is written only by StateVectors::new.
S4  frozen table (spec/mutators.json) of every direct use of Jet1090.state_vectors, of every writer
    of a Snapshot field and of every mutator of an entry's history.
S5  update_snapshot edits the record before it is shown (registers matched as both BDS 5,0 and BDS 6,0 are cleared).  Every
    read of an edited field whose value reaches the entry happens after the edit: no CFG path leads from such a read
    (a place read, a borrow, or a call handed a covering reference whose callee reads the field) to a store into that field.
S1 + S2 + S4 give the interleaving clause: an entry is a function of the records that carry its key.
"""
import json
import os
import re

import absint as A
import dataflow as D
import runner
import shapes
from props import util
from props.c11 import engine_path_to_src

ADDR_DF = (0, 4, 5, 11, 16, 17, 18, 20, 21)
SPEC = os.path.join(os.path.dirname(os.path.dirname(os.path.dirname(os.path.abspath(__file__)))), 'spec', 'mutators.json')


def sv_locals(prog, b):
    """locals holding a reference to Jet1090.state_vectors"""
    SV = set()

    def is_sv_place(pl):
        st = D.place_steps(prog, b, pl)
        return bool(st) and st[-1][0] and st[-1][0].endswith('Jet1090') and st[-1][2] == 'state_vectors'
    touched = False
    changed = True
    while changed:
        changed = False
        for bb in b['blocks']:
            for s in bb['s']:
                if s['k'] != 'assign':
                    continue
                for pl in D.rvalue_places(s['rv']) + [s['pl']]:
                    if any(x[0] and x[0].endswith('Jet1090') and x[2] == 'state_vectors' for x in D.place_steps(prog, b, pl)):
                        touched = True
                if s['pl']['p']:
                    continue
                rv = s['rv']
                l = s['pl']['l']
                if l in SV:
                    continue
                if rv['k'] == 'ref' and (is_sv_place(rv['pl']) or (rv['pl']['l'] in SV and all(e[0] == 'deref' for e in rv['pl']['p']))):
                    SV.add(l)
                    changed = True
                elif rv['k'] in ('use', 'cast') and rv['op']['k'] in ('copy', 'move') and rv['op']['pl']['l'] in SV \
                        and all(e[0] == 'deref' for e in rv['op']['pl']['p']):
                    SV.add(l)
                    changed = True
    return SV, touched


def map_calls(prog, b, SV):
    out = []
    for bi, bb in enumerate(b['blocks']):
        t = bb['t']
        if t and t['k'] == 'call' and t['callee'] and t['args']:
            a0 = t['args'][0]
            if a0['k'] in ('copy', 'move') and a0['pl']['l'] in SV and not a0['pl']['p']:
                out.append((t['callee']['item'], bi, t))
    return out


def run(prog, rep, tier):
    rep.explanation = ('S1: the per-DF arms of snapshot::icao24 are executed abstractly and the field handed to to_string() is compared with '
                       'the icao24 source field of the serde shapes. S2-S4: structural rules over the MIR of the async bodies: resolved '
                       'callees on the map, a taint dataflow from the table / record / database to every write through the entry, path '
                       'queries for the counters, and a frozen who-touches table.')
    rep.trusted = ['rustc MIR (pre-state-machine coroutine bodies)', 'checker/dataflow.py (flow- and field-insensitive taint: over-approximates flows between locals; flows through '
                   'aliased heap cells other than the entry are not tracked)', 'checker/shapes.py', 'BTreeMap::entry(k) only gives access to the value under k']
    with open(SPEC) as fh:
        spec = json.load(fh)
    f_icao = util.find_fn(prog, 'snapshot::icao24', crate='jet1090')
    upd = prog.bodies.get('jet1090::snapshot::update_snapshot::{closure#0}')
    sto = prog.bodies.get('jet1090::snapshot::store_history::{closure#0}')
    f_new = util.find_fn(prog, 'snapshot::StateVectors::new', crate='jet1090')
    for nm, b in (('snapshot::icao24', f_icao), ('update_snapshot body', upd), ('store_history body', sto), ('StateVectors::new', f_new)):
        if b is None:
            rep.missing(nm)
    if None in (f_icao, upd, sto, f_new):
        return
    # ---- S1
    S = shapes.Shapes(prog)
    mt = util.adt_type(prog, 'decode::Message')
    mt_j = util.adt_type(prog, 'rs1090::decode::Message') or mt
    dft = util.adt_type(prog, 'decode::DF')
    idmap = util.deku_variant_ids(prog, 'decode::DF')
    want = {}
    for a in S.shape(mt['id']):
        dv = next((v for t, v in (a.get('via') or []) if t == 'decode::DF'), None)
        if dv is None or a['errors']:
            continue
        vi = next(i for i, v in enumerate(dft['variants']) if v['name'] == dv)
        k = a['keys'].get('icao24')
        want.setdefault(vi, set()).add(k['src'] if k else None)
    E = runner.make_engine(prog, K=32)
    mcell = ('o', ('p', 'arg1'))
    E.gc_roots.add(mcell)
    calls = []

    def variants(E_, st):
        m = st.cells.get(mcell)
        if m is None:
            return None
        m = E_.expand(m)
        d = st.resolve(E_.expand(m[1][1])) if m[0] == 'A' and len(m[1]) == 2 else None
        return sorted(i for i, _ in d[2]) if d not in (None, A.BOT) and d[0] == 'E' else None

    def call_hook(E_, frame, b, t, sts, c):
        if frame.depth == 0 and c.get('item') == 'to_string':
            for st in sts:
                a = E_.expand(E_.operand(st, frame, t['args'][0]))
                p = engine_path_to_src(prog, mt_j['id'], a[2]) if a[0] == 'R' and a[1] == mcell else None
                calls.append((variants(E_, st), p, t.get('sp')))
    E.call_hook = call_hook
    rets = runner.run_entry(E, f_icao)
    rep.absorb_engine(E, rule='S1-no-panic')
    rep.floor('to_string call states in snapshot::icao24', len(calls), 9)
    covered = set()
    for vs, p, sp in calls:
        site = '%s:%s' % (f_icao['file'], sp)
        if vs is None or len(vs) != 1:
            rep.fail('S1-key-is-shown-address', 'icao24#arm-unknown', site, 'cannot tell which DF variant reaches this to_string call (%s)' % vs)
            continue
        vi = vs[0]
        covered.add(vi)
        w = sorted(want.get(vi, []), key=str)
        names = shapes.resolve_path(prog, mt['id'], p)[1] if p else None
        wn = shapes.resolve_path(prog, mt['id'], w[0])[1] if w and w[0] else None
        rep.check(len(w) == 1 and w[0] is not None and p == w[0], 'S1-key-is-shown-address', 'icao24#%s' % dft['variants'][vi]['name'], site,
                  'DF %s: the table key is %s but the record shows icao24 from %s' % (idmap.get(vi), '.'.join(names) if names else p, '.'.join(wn) if wn else w),
                  sample={'df': idmap.get(vi), 'key_field': '.'.join(names) if names else None})
    need = set(vi for vi, ids in idmap.items() if any(i in ADDR_DF for i in ids))
    rep.check(covered == need, 'S1-key-is-shown-address', 'icao24#variants-with-a-key', f_icao['file'],
              'variants that get a key: %s; address formats: %s' % (sorted(covered), sorted(need)))
    for st, v in rets:
        r = st.resolve(E.expand(v))
        vs = variants(E, st)
        if r != A.BOT and r[0] == 'E' and vs is not None:
            has_some = any(i == 1 for i, _ in r[2])
            has_none = any(i == 0 for i, _ in r[2])
            inneed = [x in need for x in vs]
            rep.check((all(inneed) and has_some and not has_none) or (not any(inneed) and has_none and not has_some), 'S1-key-is-shown-address',
                      'icao24#some-iff-address-format', f_icao['file'], 'variants %s return %s' % (vs, 'Some' if has_some else '' + ('/None' if has_none else '')),
                      nontrivial=False)
    # templates: Display == Serialize for both address types
    tm = {}
    for nm in ('decode::ICAO', 'decode::IcaoParity'):
        for kind, bodies in (('Serialize', S.impls.get(nm, [])),
                             ('Display', [b for b in prog.bodies.values() if b['kind'] == 'fn' and b['item'] == 'fmt' and b.get('impl')
                                          and b['impl'].get('self') == nm and b['impl'].get('trait') == 'std::fmt::Display'])):
            for b in bodies:
                tm[(nm, kind)] = util.fmt_signature(prog, b)[0]
    rep.check(len(tm) == 4 and len(set(tm.values())) == 1 and None not in tm.values(), 'S1-key-is-shown-address', 'key-format#display-equals-serialize',
              'crates/rs1090/src/decode/mod.rs', 'Display and Serialize of ICAO / IcaoParity use different templates: %s' % {k: v and v.hex() for k, v in tm.items()},
              sample={'template_hex': next(iter(tm.values())).hex() if tm and next(iter(tm.values())) else None})
    # ---- S2 / S3 on the two async bodies
    for body, label in ((upd, 'update_snapshot'), (sto, 'store_history')):
        SV, touched = sv_locals(prog, body)
        mc = map_calls(prog, body, SV)
        site = '%s:%s' % (body['file'], body['line'])
        entries = [(bi, t) for it, bi, t in mc if it == 'entry']
        rep.check(len(entries) == 1 and all(it == 'entry' for it, _, _ in mc), 'S2-keyed-access-only', label + '#map-calls', site,
                  'the table is used through %s; expected exactly one entry() call' % sorted(it for it, _, _ in mc))
        if len(entries) != 1:
            continue
        ebi, et = entries[0]

        def source(pl, body=body):
            if pl['l'] == 1 and pl['p'] and pl['p'][0][0] == 'field':
                return {(['states', 'msg', 'db'] + ['upvar%d' % i for i in range(3, 12)])[pl['p'][0][1]]}
            return None

        def call_tag(c):
            if (c.get('rdid') or '') == f_icao['id']:
                return 'icao24()'
            return None

        def call_result(c, ats, args):
            # keyed access: what entry() hands out is the entry, not the table
            if c.get('item') == 'entry' and 'BTreeMap' in (c.get('name') or ''):
                return {'entry'} | (ats[1] if len(ats) > 1 else set())
            return None
        T = D.Taint(prog, body, source, call_tag, call_result)
        key_t = T.operand_taint(et['args'][1])
        rep.check('icao24()' in key_t and key_t <= {'icao24()', 'msg'}, 'S2-key-from-record', label + '#entry-key', '%s:%s' % (body['file'], et.get('sp')),
                  'the key handed to entry() derives from %s; expected icao24(message) of the record only' % sorted(key_t),
                  sample={'fn': label, 'key_sources': sorted(key_t)})
        # or_insert(StateVectors::new(ts, key, db))
        ins = [(bi, bb['t']) for bi, bb in enumerate(body['blocks']) if bb['t'] and bb['t']['k'] == 'call' and bb['t']['callee']
               and bb['t']['callee'].get('item') in ('or_insert', 'or_insert_with', 'or_default') and 'entry' in T.operand_taint(bb['t']['args'][0])]
        news = [(bi, bb['t']) for bi, bb in enumerate(body['blocks']) if bb['t'] and bb['t']['k'] == 'call' and bb['t']['callee']
                and (bb['t']['callee'].get('rdid') or '') == f_new['id']]
        ok = len(ins) == 1 and len(news) == 1
        detail = 'expected one or_insert(StateVectors::new(..)); found %d / %d' % (len(ins), len(news))
        if ok:
            nt = news[0][1]
            ts_t, k_t = T.operand_taint(nt['args'][0]), T.operand_taint(nt['args'][1])
            ok = ts_t <= {'msg'} and 'icao24()' in k_t and k_t <= {'icao24()', 'msg'} and ins[0][1]['args'][1]['pl']['l'] == nt['dest']['l']
            detail = 'StateVectors::new(ts from %s, key from %s) / or_insert argument mismatch' % (sorted(ts_t), sorted(k_t))
        rep.check(ok, 'S2-key-from-record', label + '#new-entry', site, detail)
        if not ins:
            continue
        ibi, it_ = ins[0]
        alocal = it_['dest']['l']
        # A: locals derived from the entry reference
        Aset = {alocal}
        changed = True
        while changed:
            changed = False
            for bb in body['blocks']:
                for s in bb['s']:
                    if s['k'] == 'assign' and not s['pl']['p'] and s['pl']['l'] not in Aset:
                        rv = s['rv']
                        src = rv['pl'] if rv['k'] == 'ref' else (rv['op']['pl'] if rv['k'] in ('use', 'cast') and rv['op']['k'] in ('copy', 'move') else None)
                        if src is not None and src['l'] in Aset and (rv['k'] == 'ref' or prog.types[body['locals'][s['pl']['l']]]['k'] == 'ref'):
                            Aset.add(s['pl']['l'])
                            changed = True
        writes = 0
        allowed = {'msg', 'db', 'entry', 'icao24()'}
        counts, lastseens, firsts = [], [], []
        for bi, bb in enumerate(body['blocks']):
            for s in bb['s']:
                if s['k'] != 'assign' or s['pl']['l'] not in Aset or not any(e[0] == 'deref' for e in s['pl']['p']):
                    continue
                writes += 1
                steps = D.place_steps(prog, body, s['pl'])
                fname = '.'.join(x[2] for x in steps)
                rt = T.rvalue_taint(s['rv'])
                rep.check(rt <= allowed, 'S2-writes-from-own-record', '%s#write#%s' % (label, fname), '%s:%s' % (body['file'], s.get('sp')),
                          'the value written to %s derives from %s (allowed: the record, the database, the entry itself)' % (fname, sorted(rt - allowed)),
                          sample={'field': fname, 'sources': sorted(rt)} if writes in (1, 5) else None)
                if steps and steps[-1][2] == 'count':
                    counts.append((bi, s))
                if steps and steps[-1][2] == 'lastseen':
                    lastseens.append((bi, s, rt))
                if steps and steps[-1][2] == 'firstseen':
                    firsts.append((bi, s))
            t = bb['t']
            if t and t['k'] == 'call' and t['callee']:
                for ai, a in enumerate(t['args']):
                    if a['k'] in ('copy', 'move') and a['pl']['l'] in Aset and ai == 0 and t['callee'].get('item') in ('push', 'insert', 'extend', 'append', 'retain', 'clear', 'truncate'):
                        allt = set().union(*[T.operand_taint(x) for x in t['args'][1:]]) if len(t['args']) > 1 else set()
                        rep.check(allt <= allowed, 'S2-writes-from-own-record', '%s#call#%s' % (label, t['callee']['item']), '%s:%s' % (body['file'], t.get('sp')),
                                  '%s() on the entry receives data derived from %s' % (t['callee']['item'], sorted(allt - allowed)))
        if label == 'update_snapshot':
            rep.floor('writes through the entry in update_snapshot', writes, 30)
            ok = len(counts) == 1
            if ok:
                cbi, cs = counts[0]
                ok = every_after(body, ibi, cbi) and not D.in_cycle(body, cbi) and is_increment(body, cs)
            rep.check(ok, 'S3-count-once', 'update_snapshot#count', site,
                      'cur.count is not incremented by exactly one, once, on every path after the entry call (%d writes)' % len(counts),
                      sample={'count_writes': len(counts), 'on_every_path': ok})
            ok = len(lastseens) == 1
            if ok:
                lbi, ls, lrt = lastseens[0]
                ok = every_after(body, ibi, lbi) and lrt <= {'msg'} and lrt
            rep.check(ok, 'S3-lastseen', 'update_snapshot#lastseen', site, 'cur.lastseen is not set from the record\'s timestamp on every path after the entry call')
        if label == 'update_snapshot':
            record_edit_order(prog, rep, body, Aset, label)
        rep.check(not firsts, 'S3-firstseen', label + '#firstseen', site, 'firstseen is written outside StateVectors::new')
    # ---- S4
    seen = {}
    writers = set()
    hist = {}
    for b in prog.bodies.values():
        if b['crate'] != 'jet1090':
            continue
        SV, touched = sv_locals(prog, b)
        if SV or touched:
            seen[norm(b['name'])] = sorted(set(seen.get(norm(b['name']), [])) | set(it for it, _, _ in map_calls(prog, b, SV)))
        for bb in b['blocks']:
            for s in bb['s']:
                if s['k'] == 'assign' and s['pl']['p']:
                    steps = D.place_steps(prog, b, s['pl'])
                    if any(x[0] == 'snapshot::Snapshot' for x in steps):
                        writers.add(norm(b['name']))
                if s['k'] == 'assign' and s['rv']['k'] == 'agg' and s['rv']['ak']['k'] == 'adt' and prog.types[s['rv']['ak']['ty']]['name'] == 'snapshot::Snapshot':
                    writers.add(norm(b['name']))
            t = bb['t']
            if t and t['k'] == 'call' and t['callee'] and t['args'] and t['args'][0]['k'] in ('copy', 'move'):
                recv = t['args'][0]['pl']
                # receiver defined as &mut <place ending in StateVectors.hist>
                for bb2 in b['blocks']:
                    for s2 in bb2['s']:
                        if s2['k'] == 'assign' and s2['pl']['l'] == recv['l'] and not s2['pl']['p'] and s2['rv']['k'] == 'ref' and s2['rv'].get('mut'):
                            steps = D.place_steps(prog, b, s2['rv']['pl'])
                            if steps and steps[-1][0] == 'snapshot::StateVectors' and steps[-1][2] == 'hist':
                                hist.setdefault(norm(b['name']), set()).add(t['callee']['item'])
    # the table is compared by function (closures folded into the function that contains them) and by capability
    # class of the map method, not by the literal method name: values_mut -> values, or iter_mut().map(..) -> a for
    # loop over values_mut(), keeps what the function can do to the table unchanged
    seen_r, spec_r = {}, {}
    for fn, ms in seen.items():
        seen_r.setdefault(root_fn(fn), set()).update(ms)
    for fn, e in spec['map_calls'].items():
        spec_r.setdefault(root_fn(fn), set()).update(e.get('methods') or [])
    rep.floor('functions touching state_vectors', len(seen_r), 7)
    for fn in sorted(set(seen_r) | set(spec_r)):
        got = seen_r.get(fn)
        exp = spec_r.get(fn)
        ok = got is not None and exp is not None and caps(got) <= granted(exp)
        rep.check(ok, 'S4-who-touches-the-table', 'state_vectors#' + fn, fn,
                  'direct uses of state_vectors: %s (capabilities %s); reviewed table allows %s (capabilities %s)'
                  % (got and sorted(got), got is not None and sorted(caps(got)), exp and sorted(exp), exp is not None and sorted(granted(exp))),
                  sample={'fn': fn, 'methods': sorted(got), 'capabilities': sorted(caps(got))} if got and fn.startswith('snapshot') else None, nontrivial=bool(got))
    # a writer outside the reviewed roots is fine when it is a helper reachable only from them (every call site of
    # it, transitively, sits in a reviewed root): extracting a function out of update_snapshot keeps the rule quiet
    callers = {}
    for b in prog.bodies.values():
        if b['crate'] != 'jet1090':
            continue
        for bb in b['blocks']:
            t = bb['t']
            if t and t['k'] == 'call' and t['callee']:
                tgt = prog.bodies.get(t['callee'].get('rdid') or '')
                if tgt is not None and tgt['crate'] == 'jet1090':
                    callers.setdefault(norm(tgt['name']), set()).add(norm(b['name']))
    roots = set(spec['snapshot_field_writers'])

    def allowed(fn, seen_=()):
        if fn in roots:
            return True
        if fn in seen_:
            return False
        cs = callers.get(fn)
        return bool(cs) and all(allowed(c_, seen_ + (fn,)) for c_ in cs)
    outside = sorted(w for w in writers if not allowed(w))
    rep.check(not outside, 'S4-who-touches-the-table', 'snapshot-field-writers', 'crates/jet1090/src',
              'Snapshot fields are written in %s, which are neither reviewed writers (%s) nor helpers called only from them (callers: %s)'
              % (outside, sorted(roots), {w: sorted(callers.get(w, [])) for w in outside}))
    rep.floor('Snapshot field writers', len(writers), 2)
    hist_r, hspec_r = {}, {}
    for fn, ms in hist.items():
        hist_r.setdefault(root_fn(fn), set()).update(ms)
    for fn, ms in spec['history_mutators'].items():
        hspec_r.setdefault(root_fn(fn), set()).update(ms)
    for fn in sorted(set(hist_r) | set(hspec_r)):
        got = sorted(hist_r.get(fn, []))
        rep.check(set(got) <= hspec_r.get(fn, set()), 'S4-who-touches-the-table', 'history#' + fn, fn,
                  'history mutated through %s; reviewed: %s' % (got, sorted(hspec_r.get(fn, []))))


# capability classes of the BTreeMap methods. A method not listed is its own class: it has to be reviewed by name.
CAPS = {'read': ('get', 'values', 'keys', 'iter', 'len', 'is_empty', 'contains_key', 'first_key_value', 'last_key_value', 'range', 'get_key_value'),
        'item-mut': ('get_mut', 'values_mut', 'iter_mut', 'range_mut'),
        'remove': ('remove', 'remove_entry', 'retain', 'clear', 'pop_first', 'pop_last'),
        'insert': ('insert', 'entry')}


def caps(methods):
    out = set()
    for m in methods:
        c = next((c for c, ms in CAPS.items() if m in ms), None)
        out.add(c or 'method:' + m)
    return out


def granted(methods):
    """a reviewed function may always read the table it was reviewed for; item-mut includes read"""
    return caps(methods) | {'read'}


def root_fn(n):
    return re.sub(r'(::\{closure\})+$', '', norm(n))


def norm(n):
    return re.sub(r'\{closure#\d+\}', '{closure}', n)


def every_after(body, frm, through):
    return D.every_path_passes(body, frm, [through]) or frm == through


def is_increment(body, s):
    """`place = move (tmp.0)` with tmp = AddWithOverflow(copy place, const 1)"""
    rv = s['rv']
    if rv['k'] != 'use' or rv['op']['k'] not in ('copy', 'move'):
        return False
    tmp = rv['op']['pl']['l']
    for bb in body['blocks']:
        for s2 in bb['s']:
            if s2['k'] == 'assign' and s2['pl']['l'] == tmp and not s2['pl']['p'] and s2['rv']['k'] == 'bin' and s2['rv']['op'].startswith('Add'):
                l, r = s2['rv']['l'], s2['rv']['r']
                return r['k'] == 'const' and r['v'].get('int') == '1' and l['k'] in ('copy', 'move') and l['pl'] == s['pl']
    return False


# ---------------------------------------------------------------------------------------------------------------
# S5: values that reach the entry are read from the record as it is shown (after update_snapshot's own edits of it)

def _nm(name):
    return name[8:] if name and name.startswith('rs1090::') else name


def _record_type(name):
    return bool(name) and _nm(name).startswith('decode::')


def _field_keys(prog, body, pl):
    return [(_nm(x[0]), x[2]) for x in D.place_steps(prog, body, pl) if _record_type(x[0])]


def _contains(prog, ty, pname, memo, depth=0):
    """does a value of type `ty` (through references, Option/Vec arguments and fields) contain the ADT named pname"""
    if ty is None or depth > 12:
        return False
    if ty in memo:
        return memo[ty]
    memo[ty] = False
    t = prog.types[ty]
    r = False
    if t['k'] in ('ref', 'ptr'):
        r = _contains(prog, t['to'], pname, memo, depth + 1)
    elif t['k'] in ('slice', 'array'):
        r = _contains(prog, t['elem'], pname, memo, depth + 1)
    elif t['k'] == 'tuple':
        r = any(_contains(prog, x, pname, memo, depth + 1) for x in t.get('elems') or t.get('args') or [])
    elif t['k'] == 'adt':
        if _nm(t['name']) == pname:
            r = True
        else:
            r = any(_contains(prog, x, pname, memo, depth + 1) for x in (t.get('args') or []))
            if not r:
                for v in t.get('variants') or []:
                    if any(_contains(prog, f.get('ty'), pname, memo, depth + 1) for f in v['fields']):
                        r = True
                        break
    memo[ty] = r
    return r


def _body_summaries(prog):
    """per workspace body: record fields it reads / writes directly, and its workspace callees"""
    reads, writes, calls = {}, {}, {}
    for b in prog.bodies.values():
        rd, wr, cs = set(), set(), set()
        for bb in b['blocks']:
            for s in bb['s']:
                if s['k'] != 'assign':
                    continue
                ks = _field_keys(prog, b, s['pl'])
                if ks:
                    wr.add(ks[-1])
                for pl in D.rvalue_places(s['rv']):
                    rd.update(_field_keys(prog, b, pl))
            t = bb['t']
            if t and t['k'] == 'call':
                for a in t['args']:
                    if a['k'] in ('copy', 'move'):
                        rd.update(_field_keys(prog, b, a['pl']))
                if t['callee']:
                    tgt = t['callee'].get('rdid')
                    if tgt in prog.bodies:
                        cs.add(tgt)
        reads[b['id']], writes[b['id']], calls[b['id']] = rd, wr, cs
    return reads, writes, calls


def _closure(start, direct, calls):
    out, seen, work = set(), set(), [start]
    while work:
        x = work.pop()
        if x in seen:
            continue
        seen.add(x)
        out |= direct.get(x, set())
        work.extend(calls.get(x, ()))
    return out


def record_edit_order(prog, rep, body, Aset, label):
    reads_d, writes_d, calls = _body_summaries(prog)
    memo = {}
    site0 = '%s:%s' % (body['file'], body['line'])

    def arg_covers(a, key):
        if a['k'] not in ('copy', 'move'):
            return False
        steps = D.place_steps(prog, body, a['pl'])
        ty = steps[-1][3] if steps and a['pl']['p'] and a['pl']['p'][-1][0] == 'field' else (body['locals'][a['pl']['l']] if not a['pl']['p'] else None)
        return ty is not None and _contains(prog, ty, key[0], memo.setdefault(key[0], {}))

    def is_entry_place(pl):
        return pl['l'] in Aset
    # locals that are (references to) parts of the record handed to update_snapshot
    REC = set()

    def in_record(pl):
        if pl['l'] in REC:
            return True
        return pl['l'] == 1 and bool(pl['p']) and pl['p'][0][0] == 'field' and pl['p'][0][1] == 1
    changed = True
    while changed:
        changed = False
        for bb in body['blocks']:
            for s in bb['s']:
                if s['k'] == 'assign' and not s['pl']['p'] and s['pl']['l'] not in REC:
                    rv = s['rv']
                    src = rv['pl'] if rv['k'] in ('ref', 'rawptr') else (rv['op']['pl'] if rv['k'] in ('use', 'cast') and rv['op']['k'] in ('copy', 'move') else None)
                    if src is not None and in_record(src) and prog.types[body['locals'][s['pl']['l']]]['k'] in ('ref', 'ptr'):
                        REC.add(s['pl']['l'])
                        changed = True
            t = bb['t']
            if t and t['k'] == 'call' and t['callee'] and t['callee'].get('item') in ('as_ref', 'as_mut', 'deref', 'deref_mut', 'borrow', 'borrow_mut', 'unwrap', 'expect', 'as_deref', 'as_deref_mut') \
                    and t['args'] and t['args'][0]['k'] in ('copy', 'move') and in_record(t['args'][0]['pl']) and t['dest']['l'] not in REC and not t['dest']['p']:
                REC.add(t['dest']['l'])
                changed = True
    # W: stores into a record field (directly, or by a callee handed a mutable covering reference)
    W = []
    for bi, bb in enumerate(body['blocks']):
        for si, s in enumerate(bb['s']):
            if s['k'] == 'assign' and s['pl']['p'] and not is_entry_place(s['pl']):
                ks = _field_keys(prog, body, s['pl'])
                if ks and in_record(s['pl']):
                    W.append((bi, si, ks[-1], s.get('sp')))
        t = bb['t']
        if t and t['k'] == 'call' and t['callee'] and t['callee'].get('rdid') in prog.bodies:
            for key in _closure(t['callee']['rdid'], writes_d, calls):
                for a in t['args']:
                    if a['k'] in ('copy', 'move') and not is_entry_place(a['pl']):
                        ty = prog.types[body['locals'][a['pl']['l']]]
                        if not a['pl']['p'] and ty['k'] == 'ref' and ty.get('mut') and in_record(a['pl']) and arg_covers(a, key):
                            W.append((bi, len(bb['s']), key, t.get('sp')))
    keys = sorted(set(w[2] for w in W))
    # sinks: what reaches the entry
    def sink_locals():
        out = []
        for bi, bb in enumerate(body['blocks']):
            for s in bb['s']:
                if s['k'] == 'assign' and is_entry_place(s['pl']) and any(e[0] == 'deref' for e in s['pl']['p']):
                    out.append((set(p['l'] for p in D.rvalue_places(s['rv'])), '%s:%s' % (body['file'], s.get('sp'))))
            t = bb['t']
            if t and t['k'] == 'call' and any(a['k'] in ('copy', 'move') and is_entry_place(a['pl']) for a in t['args']):
                out.append((set(a['pl']['l'] for a in t['args'] if a['k'] in ('copy', 'move') and not is_entry_place(a['pl'])), '%s:%s' % (body['file'], t.get('sp'))))
        return out
    sinks = sink_locals()

    def reach(l0):
        R = {l0}
        changed = True
        while changed:
            changed = False
            for bb in body['blocks']:
                for s in bb['s']:
                    if s['k'] == 'assign' and s['pl']['l'] not in R and not is_entry_place(s['pl']):
                        if any(p['l'] in R for p in D.rvalue_places(s['rv'])):
                            R.add(s['pl']['l'])
                            changed = True
                t = bb['t']
                if t and t['k'] == 'call' and any(a['k'] in ('copy', 'move') and a['pl']['l'] in R for a in t['args']):
                    if t['dest']['l'] not in R and not is_entry_place(t['dest']):
                        R.add(t['dest']['l'])
                        changed = True
        return R
    # R: reads of record fields whose value reaches the entry
    reads = []
    for bi, bb in enumerate(body['blocks']):
        for si, s in enumerate(bb['s']):
            if s['k'] == 'assign' and not is_entry_place(s['pl']):
                ks = set()
                for pl in D.rvalue_places(s['rv']):
                    if in_record(pl):
                        ks.update(_field_keys(prog, body, pl))
                if ks:
                    reads.append((bi, si, ks, s['pl']['l'], s.get('sp'), None))
            elif s['k'] == 'assign' and is_entry_place(s['pl']):
                ks = set()
                for pl in D.rvalue_places(s['rv']):
                    if in_record(pl):
                        ks.update(_field_keys(prog, body, pl))
                if ks:
                    reads.append((bi, si, ks, None, s.get('sp'), None))
        t = bb['t']
        if t and t['k'] == 'call':
            ks = set()
            for a in t['args']:
                if a['k'] in ('copy', 'move') and in_record(a['pl']):
                    ks.update(_field_keys(prog, body, a['pl']))
            tgt = t['callee'].get('rdid') if t['callee'] else None
            callee_reads = _closure(tgt, reads_d, calls) if tgt in prog.bodies else None
            for key in keys:
                if any(a['k'] in ('copy', 'move') and in_record(a['pl']) and arg_covers(a, key) for a in t['args']) and (callee_reads is None or key in callee_reads):
                    ks.add(key)
            if ks:
                direct = any(a['k'] in ('copy', 'move') and is_entry_place(a['pl']) for a in t['args'])
                reads.append((bi, len(bb['s']), ks, None if direct else t['dest']['l'], t.get('sp'), (t['callee'] or {}).get('name')))
    flowing = []
    cache = {}
    for bi, si, ks, dl, sp, via in reads:
        if dl is None:
            flowing.append((bi, si, ks, sp, via))
            continue
        if dl not in cache:
            R = reach(dl)
            cache[dl] = any(ls & R for ls, _ in sinks)
        if cache[dl]:
            flowing.append((bi, si, ks, sp, via))
    rep.floor('reads of the record whose value reaches the entry in update_snapshot', len(flowing), 20)
    bad = []
    for bi, si, ks, sp, via in flowing:
        for wbi, wsi, key, wsp in W:
            if key not in ks:
                continue
            before = (bi == wbi and si < wsi) or (wbi in set().union(*[D.reachable(body, s_) for s_ in D.succs(body['blocks'][bi]['t'])] or [set()]) and bi != wbi)
            if before:
                bad.append((key, sp, wsp, via))
    if not keys:
        rep.check(True, 'S5-shown-record', label + '#no-edit', site0, 'update_snapshot does not edit the record', nontrivial=False)
    for key in keys:
        b_ = sorted(set((sp, wsp, via) for k, sp, wsp, via in bad if k == key), key=str)
        nreads = sum(1 for _, _, ks, _, _ in flowing if key in ks)
        rep.check(not b_, 'S5-shown-record', '%s#edit#%s.%s' % (label, key[0].split('::')[-1], key[1]), site0,
                  'the field %s.%s is cleared at line %s after it was read at line %s%s, and that earlier value reaches the aircraft entry: the table would hold a '
                  'value the shown record does not contain' % (key[0].split('::')[-1], key[1], b_[0][1] if b_ else '?', b_[0][0] if b_ else '?',
                                                             (' (through %s)' % b_[0][2]) if b_ and b_[0][2] else ''),
                  sample={'field': '%s.%s' % key, 'stores': sum(1 for w in W if w[2] == key), 'reads_reaching_entry': nreads})
