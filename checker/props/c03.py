"""C03 - field decoding inverts the standard's encoding (clause-limited, see DESIGN.md §7).

L1 layout     every deku reader of a decode type is analysed on its own from bit 0 of a synthetic
              stream.  Each primitive read (position, width) is attributed to the field(s) of the
              value under construction whose operand it flows into (dataflow from the depth-0 call
              that performed the read to the aggregate operand).  For every type listed in
              spec/layouts.json: the bits a field is decoded from are exactly the standard's bits
              (`bits`), other bits may only flow in where the table allows it (`with`: status / sign /
              type-code dependencies), bits read and dropped are the standard's reserved bits (`pad`),
              and the register is placed at the standard's offset of its 56-bit field (`base`, read
              from the dispatching enum).  spec/layouts.json was generated from the pinned tree and
              then reviewed field by field against ICAO Doc 9871 / DO-260B (layout tables in DESIGN.md).
L2 characters both 6-bit tables equal the Annex 10 subset at its 37 defined codes.
L3 DF20/BDS05 every store of Some(..) into DF20DataSelector.bds05 happens under the fact
              altitude-of-the-payload == altitude-of-the-header; DF21DataSelector.bds05 is never
              stored a Some.
L4 scales     for the numeric fields of spec table props/c03_scales.py (BDS 0,6 0,9 4,0 4,4 4,5 5,0 6,0 6,2): the
              expression computed for the field on every path of its reader / map closure (a symbolic term
              over the field's bits, with the path condition restricted to those bits) is evaluated for every
              combination of the field's bits the path admits and compared with the value the standard
              assigns to that code.  Where the reader reports None or rejects the register nothing is
              compared (validity filters of the Comm-B inference are the implementation's choice).
Not decided: the round trip itself (a frame built by an independent encoder); the altitude and identity
codes are C13's, ranges and steps C08's.
"""
import json
import os
import sys

import absint as A
import dataflow
import models
import runner
from props import util

SPEC = os.path.join(os.path.dirname(os.path.dirname(os.path.dirname(os.path.abspath(__file__)))), 'spec', 'layouts.json')


def term_bits(t, acc, depth=0):
    if t is None or depth > 60 or not isinstance(t, tuple):
        return
    if t and t[0] == 'bits':
        acc.add((t[2], t[3]))
        return
    for x in t[1:]:
        if isinstance(x, tuple):
            term_bits(x, acc, depth + 1)


def val_bits(E, st, v, acc, depth=0):
    if depth > 8 or v is None or v == A.BOT:
        return
    if v[0] == 'T':
        v = E.expand(v)
    v = st.resolve(v) if v[0] in ('I', 'F', 'E') else v
    if v == A.BOT:
        return
    if v[0] in ('I', 'F'):
        term_bits(v[4], acc)
    elif v[0] == 'E':
        term_bits(v[1], acc)
        for vi, fs in v[2]:
            for x in fs:
                val_bits(E, st, x, acc, depth + 1)
    elif v[0] == 'A':
        for x in v[1]:
            val_bits(E, st, x, acc, depth + 1)
    elif v[0] == 'S':
        if v[3] is not None:
            for x in v[3]:
                val_bits(E, st, x, acc, depth + 1)
        else:
            val_bits(E, st, v[2], acc, depth + 1)


def reader_of(prog, name):
    return next((b for b in prog.bodies.values() if b['kind'] == 'fn' and b['item'] == 'from_reader_with_ctx' and b['crate'] == 'rs1090'
                 and b.get('impl') and b['impl'].get('self') == name), None)


def extract(prog, name, K=16):
    """-> {'fields': {key: {'reads': set, 'atoms': set}}, 'events': set((pos, width)), 'dropped': set, 'inexact': [...],
           'calls': {callee self type: set(start positions)}}     key = field  or  Variant.field"""
    body = reader_of(prog, name)
    if body is None:
        return None
    ty = util.adt_type(prog, name)
    E = runner.make_engine(prog, K=K)
    ev = {}
    inexact = []
    atoms = {}
    calls = {}

    def lh(E_, frame, b, t, c, sid, pos, n, what):
        blk = frame.path[1][1] if frame.depth > 0 else b
        nested = frame.depth > 0 and any('from_reader_with_ctx' in nm and '<decode::' in nm and ('<%s as' % name) not in nm
                                         for nm in [p_[0] for p_ in frame.path[2:] if isinstance(p_[0], str)] + [frame.body['name']])
        if pos is None or pos[1] != pos[2] or n[1] != n[2]:
            if nested:
                return          # inside a nested reader, which is analysed on its own from bit 0
            inexact.append((blk, (pos[1], pos[2]) if pos is not None else None, (n[1], n[2])))
            return
        ev.setdefault(blk, set()).add((pos[1], n[1]))
    E.layout_hook = lh

    def sh(E_, st, frame, b, idx, stmt, v):
        rv = stmt['rv']
        if frame.depth != 0 or rv['k'] != 'agg' or rv['ak']['k'] != 'adt':
            return
        t2 = prog.types[rv['ak']['ty']]
        if t2['name'] != name:
            return
        var = t2['variants'][rv['ak']['variant']]
        for f, o in zip(var['fields'], rv['ops']):
            key = (var['name'] + '.' if t2['ak'] == 'enum' else '') + f['name']
            val_bits(E_, st, E_.operand(st, frame, o), atoms.setdefault(key, set()))
    E.stmt_hook = sh

    def ch(E_, frame, b, t, sts, c):
        # start position of nested decode-type readers (placement of registers inside dispatchers)
        if frame.depth != 0 or c.get('item') != 'from_reader_with_ctx':
            return
        self_ty = (c.get('impl') or {}).get('self') if isinstance(c.get('impl'), dict) else None
        nm = c.get('rname') or c.get('name') or ''
        if '<decode::' not in nm:
            return
        target = nm.split('<', 1)[1].split(' as ', 1)[0]
        for st in sts:
            lv, rd = models._reader_fields(E_, st, E_.operand(st, frame, t['args'][0]), models.pointee_ty(E_, frame, t, 0))
            if rd is None:
                continue
            s = models._stream(E_, rd[1][0])
            if s is not None and s[1] is not None and s[1][1] == s[1][2]:
                calls.setdefault(target, set()).add((b, s[1][1]))
            else:
                calls.setdefault(target, set()).add((b, None))
    E.call_hook = ch
    cell = ('o', ('p', 'reader'))

    def pre(E_, st, fr):
        st.cells[cell] = util.synthetic_reader(E_)
    try:
        runner.run_entry(E, body, [('R', cell, (), True)] + [None] * (body['argc'] - 1), pre=pre, quiet=True)
    except A.AnalysisError as e:
        return {'error': str(e)}

    def is_reader(l):
        t2 = prog.types[body['locals'][l]]
        while t2['k'] in ('ref', 'ptr'):
            t2 = prog.types[t2['to']]
        return t2['k'] == 'adt' and t2['name'].startswith('deku::reader::Reader')
    sites = {}
    for bi, bb in enumerate(body['blocks']):
        t = bb['t']
        if t and t['k'] == 'call':
            sites[id(t['args'])] = bi

    class TT(dataflow.Taint):
        def place_taint(self, pl):
            if is_reader(pl['l']):
                return set()
            return super().place_taint(pl)

        def add(self, l, s):
            if is_reader(l):
                return False
            return super().add(l, s)

    def call_result(c, ats, args):
        r = set().union(*ats) if ats else set()
        bi = sites.get(id(args))
        if bi in ev:
            r = r | {bi}
        if bi in inexact_blocks or bi in nested_blocks:
            r = r | {bi}
        return r
    nested_blocks = set(bi for ps in calls.values() for bi, _ in ps)
    inexact_blocks = set(i[0] for i in inexact)
    tt = TT(prog, body, lambda pl: None, call_result=call_result)
    fields = {}
    for bb in body['blocks']:
        for s in bb['s']:
            if s['k'] == 'assign' and s['rv']['k'] == 'agg' and s['rv']['ak']['k'] == 'adt' and prog.types[s['rv']['ak']['ty']]['name'] == name:
                t2 = prog.types[s['rv']['ak']['ty']]
                var = t2['variants'][s['rv']['ak']['variant']]
                for f, o in zip(var['fields'], s['rv']['ops']):
                    key = (var['name'] + '.' if t2['ak'] == 'enum' else '') + f['name']
                    fields.setdefault(key, set()).update(x for x in tt.operand_taint(o) if isinstance(x, int))
    blk_fields = {}
    for key, blks in fields.items():
        for bi in blks:
            blk_fields.setdefault(bi, set()).add(key)
    call_fields = blk_fields
    for bb in body['blocks']:
        pass
    inexact = [(tuple(sorted(blk_fields.get(bi, ()))), pos, n) for bi, pos, n in inexact]
    # start positions of nested readers, with the fields each nested value flows into
    calls = {tgt: set((pos, tuple(sorted(call_fields.get(bi, ())))) for bi, pos in ps) for tgt, ps in calls.items()}
    out = {'fields': {}, 'events': set(), 'dropped': set(), 'inexact': inexact, 'calls': calls}
    used = set()
    for key, blks in fields.items():
        rd = set()
        for bi in blks:
            rd |= ev.get(bi, set())
        used |= blks
        out['fields'][key] = {'reads': rd, 'atoms': atoms.get(key, set())}
    for bi, s in ev.items():
        out['events'] |= s
        if bi not in used:
            out['dropped'] |= s
    return out


_PROG = None


def _extract_job(a):
    sys.setrecursionlimit(20000)
    return extract(_PROG, a[0], K=a[1])


def bitset(segs):
    s = set()
    for p, w in segs:
        s.update(range(p, p + w))
    return s


def ranges(bits):
    out = []
    for b in sorted(bits):
        if out and out[-1][0] + out[-1][1] == b:
            out[-1][1] += 1
        else:
            out.append([b, 1])
    return out


def generate(prog):
    """spec skeleton from the current tree (for review; never called by the check)"""
    names = sorted(set(b['impl']['self'] for b in prog.bodies.values() if b['kind'] == 'fn' and b['item'] == 'from_reader_with_ctx'
                       and b['crate'] == 'rs1090' and b.get('impl') and (b['impl'].get('self') or '').startswith('decode::')
                       and not (b['impl'].get('self') or '').startswith('decode::flarm')))
    spec = {}
    for n in names:
        x = extract(prog, n)
        if not x or 'error' in x or not x['fields']:
            continue
        ent = {'fields': {}, 'pad': ranges(bitset(x['dropped']))}
        ty = util.adt_type(prog, n)
        for v in ty['variants']:
            owned = set()
            for f in v['fields']:
                key = (v['name'] + '.' if ty['ak'] == 'enum' else '') + f['name']
                if key not in x['fields']:
                    continue
                fr = x['fields'][key]
                fty = prog.types[f['ty']] if f.get('ty') is not None else None
                if fty is not None and fty['k'] == 'adt' and fty['name'] in x['calls']:
                    ent['fields'][key] = {'nested': fty['name']}
                    owned |= bitset(fr['reads'])
                    continue
                rb = bitset(fr['reads'])
                ab = bitset(fr['atoms']) & rb
                own = ab if ab else (rb - owned)
                owned |= own
                ent['fields'][key] = {'bits': ranges(own), 'with': ranges(rb - own)}
        if x['calls']:
            ent['places'] = {k: sorted(set(p_ for p_, _ in v), key=lambda z: -1 if z is None else z) for k, v in sorted(x['calls'].items())}
        spec[n] = ent
    return spec


def run(prog, rep, tier):
    rep.explanation = ('Each deku reader of a decode type is interpreted abstractly from bit 0 of a synthetic stream; primitive reads (position, width) are '
                       'attributed to the fields they flow into and compared with the reviewed table spec/layouts.json (bits of each field, allowed '
                       'status/sign dependencies, reserved bits, placement of registers in their dispatcher).')
    rep.trusted = ['rustc MIR', 'checker/absint.py', 'deku read contracts (checker/models.py)', 'spec/layouts.json (reviewed against ICAO Doc 9871 / DO-260B field tables)']
    with open(SPEC) as fh:
        spec = {k: v for k, v in json.load(fh).items() if not k.startswith('_')}
    rep.floor('types in spec/layouts.json', len(spec), 40)
    nf = 0
    global _PROG
    _PROG = prog
    import multiprocessing as mp
    names = sorted(spec)
    K = 16 if tier == 'quick' else 32
    results = {}
    with mp.get_context('fork').Pool(min(16, os.cpu_count() or 4)) as pool:
        order = sorted(names, key=lambda n: 0 if n == 'decode::DF' else 1)
        for n, r in zip(order, pool.map(_extract_job, [(n, K) for n in order], chunksize=1)):
            results[n] = r
    for name, ent in sorted(spec.items()):
        short = name.split('::')[-1]
        x = results[name]
        body = reader_of(prog, name)
        site = body['file'] if body else '-'
        if x is None:
            rep.missing('deku reader of ' + name)
            continue
        if 'error' in x:
            rep.fail('L1-layout', short + '#analysis', site, 'analysis of the reader did not finish: ' + x['error'])
            continue
        tail = set(ent.get('variable_tail') or ())
        inexact = [i for i in x['inexact'] if not (i[0] and set(i[0]) <= tail)]
        rep.check(not inexact, 'L1-layout', short + '#positions-known', site,
                  'a read of %s happens at a position / width that is not a constant and flows into %s (only %s may follow a variable-length part): %s'
                  % (short, sorted(set(f for i in inexact for f in i[0])) or 'no field', sorted(tail) or 'nothing', [(i[1], i[2]) for i in inexact[:3]]), nontrivial=bool(tail))
        for key, fs in sorted(ent['fields'].items()):
            nf += 1
            got = x['fields'].get(key)
            if 'nested' in fs:
                # a value with its own reader: its layout is checked under its own name, its position by L1-placement
                rep.check(got is not None and fs['nested'] in (ent.get('places') or {}), 'L1-layout', '%s.%s#nested' % (short, key), site,
                          'field %s of %s (a %s) has no placement in the table' % (key, short, fs['nested']), nontrivial=False)
                continue
            k2 = '%s.%s' % (short, key)
            if got is None:
                rep.fail('L1-layout', k2 + '#present', site, 'field %s of %s is in the layout table but no aggregate of the reader writes it' % (key, short))
                continue
            rb = bitset(got['reads'])
            own = bitset(fs['bits'])
            allowed = own | bitset(fs.get('with', []))
            miss = own - rb
            extra = rb - allowed
            rep.check(not miss and not extra, 'L1-layout', k2, site,
                      '%s.%s is decoded from bits %s of its %s; the standard places it at %s%s%s'
                      % (short, key, ranges(rb), 'register' if 'base' in ent else 'structure', fs['bits'],
                         ('; missing ' + str(ranges(miss))) if miss else '', ('; foreign bits ' + str(ranges(extra))) if extra else ''),
                      sample={'type': short, 'field': key, 'bits': fs['bits'], 'with': fs.get('with', [])} if nf % 40 == 1 else None)
            # the value itself is built from its own bits where the engine keeps the provenance
            ab = bitset(got['atoms'])
            rep.check(ab <= allowed, 'L1-layout', k2 + '#value-bits', site,
                      'the value of %s.%s is computed from bits %s, outside %s' % (short, key, ranges(ab - allowed), ranges(allowed)), nontrivial=bool(ab))
        unknown = sorted(k for k in set(x['fields']) - set(ent['fields']) if not any(k.startswith(pre) for pre in (ent.get('exempt') or {})))
        rep.check(not unknown, 'L1-layout', short + '#fields-listed', site, 'fields of %s missing from the layout table: %s' % (short, unknown), nontrivial=False)
        pad = bitset(ent.get('pad', []))
        dropped = bitset(x['dropped'])
        rep.check(dropped == pad, 'L1-layout', short + '#reserved-bits', site,
                  '%s reads and drops bits %s; the reserved bits of the standard are %s' % (short, ranges(dropped), ent.get('pad', [])), nontrivial=bool(pad or dropped))
        for target, poss in sorted((ent.get('places') or {}).items()):
            gotp = x['calls'].get(target)
            if gotp is not None:
                # values that only feed the never-serialised tail fields may start at a variable position
                gotp = set(p_ for p_, fl in gotp if not (fl and set(fl) <= tail))
            poss = [p_ for p_ in poss if p_ is not None]
            rep.check(gotp is not None and sorted(gotp, key=lambda z: -1 if z is None else z) == poss, 'L1-placement', '%s>%s' % (short, target.split('::')[-1]), site,
                      '%s starts reading %s at bit %s of its field; the table says %s' % (short, target, sorted(gotp, key=str) if gotp else 'nowhere', poss),
                      sample={'dispatcher': short, 'register': target.split('::')[-1], 'start': poss})
        newp = sorted(set(x['calls']) - set((ent.get('places') or {})))
        rep.check(not newp, 'L1-placement', short + '#registers-listed', site, '%s dispatches to readers missing from the table: %s' % (short, newp), nontrivial=False)
    rep.floor('fields compared with the layout table', nf, 300)
    l2_chars(prog, rep)
    l3_df20(prog, rep)
    l4_scales(prog, rep, tier)
    l5_altitude_identity(prog, rep, tier)
    # the decoded fields are observed through their JSON rendering too (address and squawk text, keys): C07's shape and
    # key rules (lower-case 6-digit hex address fed from the right field, serialisable alternatives) are evaluated here as well
    from props import c07
    c07.run(prog, util.Prefixed(rep, 'L6-json/'), tier, compose=False)


def l5_altitude_identity(prog, rep, tier):
    """L5: barometric altitude (13-bit AC field, 12-bit airborne-position field) and the identity code are
    fields of this property too: the rules of C13 (bit permutation, Gillham tables and normal forms,
    25*N - 1000, re-insertion of the M bit before decode_id13, no lossy cast) are evaluated here as well."""
    from props import c13
    c13.run(prog, util.Prefixed(rep, 'L5-altitude-identity/'), tier)


def field_producers(prog, body, name):
    """{field key: set of depth-0 call blocks whose result is the nearest producer of the field's operand}"""
    sites = {}
    for bi, bb in enumerate(body['blocks']):
        t = bb['t']
        if t and t['k'] == 'call':
            sites[id(t['args'])] = bi

    def is_reader(l):
        t2 = prog.types[body['locals'][l]]
        while t2['k'] in ('ref', 'ptr'):
            t2 = prog.types[t2['to']]
        return t2['k'] == 'adt' and t2['name'].startswith('deku::reader::Reader')

    class TT(dataflow.Taint):
        def place_taint(self, pl):
            if is_reader(pl['l']):
                return set()
            return super().place_taint(pl)

        def add(self, l, s):
            if is_reader(l):
                return False
            return super().add(l, s)

    def call_result(c, ats, args):
        bi = sites.get(id(args))
        nm = (c.get('rname') or c.get('name') or '')
        if bi is None or c.get('item') in ('branch', 'from_residual', 'from', 'into', 'clone', 'map_err', 'ok_or', 'unwrap', 'deref'):
            return set().union(*ats) if ats else set()      # plumbing (`?`, conversions): transparent
        return {bi}
    tt = TT(prog, body, lambda pl: None, call_result=call_result)
    out = {}
    ftypes = {}
    for bb in body['blocks']:
        for s in bb['s']:
            if s['k'] == 'assign' and s['rv']['k'] == 'agg' and s['rv']['ak']['k'] == 'adt' and prog.types[s['rv']['ak']['ty']]['name'] == name:
                t2 = prog.types[s['rv']['ak']['ty']]
                var = t2['variants'][s['rv']['ak']['variant']]
                for f, o in zip(var['fields'], s['rv']['ops']):
                    key = (var['name'] + '.' if t2['ak'] == 'enum' else '') + f['name']
                    ftypes[key] = f.get('ty')
                    out.setdefault(key, set()).update(x for x in tt.operand_taint(o) if isinstance(x, int))
    return out, ftypes


def _scale_job(a):
    sys.setrecursionlimit(20000)
    return scale_states(_PROG, a[0], a[1], a[2])


def scale_states(prog, name, K, only):
    """for each field of the scale table: the distinct (path condition on the field's bits, value term) pairs"""
    import terms
    from props.c03_scales import SCALES
    body = reader_of(prog, name)
    if body is None:
        return None
    prods, ftypes = field_producers(prog, body, name)
    want = {only: SCALES[name][only]}
    mine_bits = set()
    for p_, w_ in want[only]['atoms'].values():
        mine_bits.update(range(p_, p_ + w_))
    blk_fields = {}
    for f, blks in prods.items():
        if f in want:
            for bi in blks:
                blk_fields.setdefault(bi, set()).add(f)
    old = A.TERM_LIMIT
    A.TERM_LIMIT = 100
    try:
        E = runner.make_engine(prog, K=K)
        E.per_caller_budget = True
        # slice: every bit of the register outside this field reads as 0 (one path through the other fields)
        E.bits_override = lambda pos, width: None if any(b_ in mine_bits for b_ in range(pos, pos + width)) else 0
        rec = []

        class H:
            def exit(self, E_, nf, rets):
                if nf.depth != 1:
                    return
                fs = blk_fields.get(nf.path[-1][1])
                if not fs:
                    return
                rty = prog.types[nf.body['locals'][0]]
                if rty['k'] != 'adt' or not rty['name'].endswith('Result') or not rty.get('args'):
                    return
                for f in fs:
                    if ftypes.get(f) == rty['args'][0]:
                        for st, v in rets:
                            rec.append((f, st, v))
        h = H()

        class AnyHooks(dict):
            def get(self, k, d=None):
                return h
        E.hooks = AnyHooks()
        cell = ('o', ('p', 'reader'))

        def pre(E_, st, fr):
            st.cells[cell] = util.synthetic_reader(E_)
        runner.run_entry(E, body, [('R', cell, (), True)] + [None] * (body['argc'] - 1), pre=pre, quiet=True)
        out = {}
        for f, st, v in rec:
            spec = want[f]
            mine = {(p, w): nm for nm, (p, w) in spec['atoms'].items()}
            r = st.resolve(E.expand(v))
            if r == A.BOT or r[0] != 'E':
                continue
            for vi, fs in r[2]:
                if vi != 0:
                    continue            # Err: the register is rejected
                x = st.resolve(E.expand(fs[0]))
                vals = []
                def tm(y):
                    if y[4] is not None:
                        return y[4]
                    if y[1] == y[2] and not (y[0] == 'F' and y[3]):
                        return A.T('c', y[1])
                    return None
                if x != A.BOT and x[0] in ('I', 'F'):
                    vals.append(('val', tm(x), x[0]))
                elif x != A.BOT and x[0] == 'E':
                    for v2, f2 in x[2]:
                        if f2:
                            y = E.scalar(st, f2[0])
                            vals.append(('val', tm(y), y[0]) if y[0] in ('I', 'F') else ('opaque', None, None))
                        else:
                            vals.append(('none', None, None))
                else:
                    vals.append(('opaque', None, None))
                # path condition restricted to this field's bits
                cond = []
                for t, iv in st.rf.items():
                    ats = terms.atoms_of(t)
                    if ats and all(a[0] == 'bits' and (a[2], a[3]) in mine for a in ats):
                        cond.append((t, (iv[0], iv[1])))
                for fa in st.facts:
                    if fa[0] in ('Eq', 'Ne', 'Lt', 'Le', 'Gt', 'Ge') and isinstance(fa[1], tuple) and isinstance(fa[2], tuple):
                        ats = terms.atoms_of(fa[1]) | terms.atoms_of(fa[2])
                        if ats and all(a[0] == 'bits' and (a[2], a[3]) in mine for a in ats):
                            cond.append(((fa[0], fa[1], fa[2]), (1, 1)))
                for kind, t, k2 in vals:
                    out.setdefault(f, set()).add((kind, t, k2, frozenset(cond)))
        return out
    finally:
        A.TERM_LIMIT = old


def l4_scales(prog, rep, tier):
    import multiprocessing as mp
    import terms
    from props.c03_scales import SCALES
    global _PROG
    _PROG = prog
    names = sorted(SCALES)
    K = 64
    jobs = [(n, K, f) for n in names for f in sorted(SCALES[n])]
    results = {n: {} for n in names}
    with mp.get_context('fork').Pool(min(16, os.cpu_count() or 4)) as pool:
        for (n, _, f), r in zip(jobs, pool.map(_scale_job, jobs, chunksize=1)):
            if r is None:
                results[n] = None
            elif results[n] is not None:
                results[n].update(r)
    nfields = 0
    ncodes = 0
    for name in names:
        short = name.split('::')[-1]
        body = reader_of(prog, name)
        site = body['file'] if body else '-'
        res = results[name]
        if res is None:
            rep.missing('deku reader of ' + name)
            continue
        for f, spec in sorted(SCALES[name].items()):
            nfields += 1
            key = '%s.%s' % (short, f)
            states = res.get(f) or set()
            if not states:
                rep.missing('value expression of %s' % key, '(no reader / map closure result flows into the field)')
                continue
            atoms = spec['atoms']
            names_ = sorted(atoms)
            total = 1
            for nm in names_:
                total *= 1 << atoms[nm][1]
            stride = 1
            if tier == 'quick' and total > 4096:
                stride = 1          # every code also in the quick tier: the tables are small
            tol = spec.get('tol')
            bad = None
            compared = 0
            opaque = 0
            for kind, t, k2, cond in states:
                if kind == 'opaque':
                    opaque += 1
            evaluable = [s_ for s_ in states if s_[0] in ('val', 'none')]
            for code in range(0, total, stride):
                env_names = {}
                c = code
                for nm in names_:
                    w = atoms[nm][1]
                    env_names[nm] = c & ((1 << w) - 1)
                    c >>= w
                want = spec['f'](**env_names)
                if want is None:
                    continue
                for kind, t, k2, cond in evaluable:
                    if kind != 'val':
                        continue
                    env = {}
                    ok_atoms = True
                    for a in terms.atoms_of(t) | set(x for ct, _ in cond for x in terms.atoms_of(ct)):
                        if a[0] == 'bits' and (a[2], a[3]) in [atoms[n_] for n_ in names_]:
                            nm = next(n_ for n_ in names_ if atoms[n_] == (a[2], a[3]))
                            env[a] = env_names[nm]
                        else:
                            ok_atoms = False
                    if not ok_atoms:
                        bad = bad or ('the value of %s depends on %s, not only on its own bits %s' % (key, sorted(A.show_term(a_) for a_ in terms.atoms_of(t) if a_ not in env), atoms))
                        continue
                    adm = True
                    for ct, (lo, hi) in cond:
                        try:
                            cv = terms.point_eval(ct, env)
                        except terms.NotNormal:
                            continue
                        if cv != cv or not (lo <= cv <= hi):
                            adm = False
                            break
                    if not adm:
                        continue
                    try:
                        got = terms.point_eval(t, env)
                    except terms.NotNormal as e:
                        bad = bad or ('expression of %s not evaluable: %s' % (key, e))
                        continue
                    compared += 1
                    lim = tol if tol is not None else 1e-9 * max(1.0, abs(want))
                    if got != got or abs(got - want) > lim:
                        bad = bad or ('%s with bits %s decodes to %r, the standard assigns %r (expression %s)' % (key, env_names, got, want, A.show_term(t)[:120]))
            ncodes += compared
            rep.check(bad is None and compared > 0, 'L4-scales', key, site, bad or ('no code of %s could be evaluated (%d opaque expressions)' % (key, opaque)),
                      sample={'field': key, 'codes compared': compared, 'paths': len(evaluable)} if nfields % 6 == 1 else None)
    rep.floor('fields with a scale rule', nfields, 33)
    rep.floor('field codes compared with the standard', ncodes, 20000)


def l2_chars(prog, rep):
    want = {i: 64 + i for i in range(1, 27)}
    want[32] = 32
    want.update({i: i for i in range(48, 58)})
    tables = 0
    for b in prog.bodies.values():
        if b['crate'] != 'rs1090' or 'decode::bds' not in b['name']:
            continue
        for bb in b['blocks']:
            for s in bb['s']:
                if s['k'] == 'assign' and s['rv']['k'] == 'use' and s['rv']['op']['k'] == 'const':
                    ty = prog.types[s['rv']['op']['ty']]
                    tt = prog.types[ty['to']] if ty['k'] == 'ref' else ty
                    if tt['k'] == 'array' and tt.get('len') == 64 and prog.types[tt['elem']]['s'] == 'u8':
                        data = util.const_bytes_of_operand(prog, b, s['rv']['op'])
                        allowed = set(b'ABCDEFGHIJKLMNOPQRSTUVWXYZ0123456789 #')
                        if data is None or len(data) < 64 or len(set(data[:64])) < 30 or sum(1 for ch in data[:64] if ch in allowed) < 58:
                            continue            # some other 64-byte constant (a message text)
                        tables += 1
                        bad = {i: chr(data[i]) for i, c in want.items() if data[i] != c}
                        rep.check(not bad, 'L2-characters', 'CHAR_LOOKUP@%s' % b['name'].split('::')[-2 if b['kind'] == 'closure' else -1], '%s:%s' % (b['file'], s.get('sp')),
                                  '6-bit character table differs from Annex 10 at codes %s' % bad, sample={'defined codes': 37} if tables == 1 else None)
    # the character function itself (after seed C03-s10 replaced the table by a formula): every u8 -> char function or
    # closure below a `callsign_read` is evaluated by the abstract interpreter on each of the 64 singleton codes
    fns = 0
    for b, table in util.char_functions(prog):
        fns += 1
        bad = {c: sorted(chr(v) if isinstance(v, int) and 32 <= v < 127 else str(v) for v in table[c]) for c in want if table[c] != {want[c]}}
        rep.check(not bad, 'L2-characters', 'char-function@%s' % b['name'].split('::{closure')[0].split('::')[-1] + ('#closure' if b['kind'] == 'closure' else ''),
                  '%s:%s' % (b['file'], b['line']), 'the character function gives %s; Annex 10 gives %s' % (bad, {c: chr(want[c]) for c in bad}),
                  sample={'character function': b['name'].split('::')[-2 if b['kind'] == 'closure' else -1], 'codes evaluated': 64, 'defined codes': 37})
    rep.floor('6-bit character tables and character functions', tables + fns, 2)
    rep.floor('character functions below callsign_read', fns, 1)


def l3_df20(prog, rep):
    for sel, want_some in (('decode::commb::DF20DataSelector', True), ('decode::commb::DF21DataSelector', False)):
        body = reader_of(prog, sel)
        ty = util.adt_type(prog, sel)
        if body is None or ty is None:
            rep.missing('reader of ' + sel)
            continue
        fidx = next((i for i, f in enumerate(ty['variants'][0]['fields']) if f['name'] == 'bds05'), None)
        if fidx is None:
            rep.missing(sel + '.bds05')
            continue
        bp = util.adt_type(prog, 'decode::bds::bds05::AirbornePosition')
        aidx = next((i for i, f in enumerate(bp['variants'][0]['fields']) if f['name'] == 'alt'), None) if bp else None
        stores = []
        E = runner.make_engine(prog, K=16)

        def sh(E_, st, frame, b, idx, stmt, v, stores=stores, fidx=fidx, aidx=aidx):
            if frame.depth != 0:
                return
            pl = stmt['pl']
            steps = [p for p in pl['p'] if p[0] == 'field']
            if not steps or steps[-1][1] != fidx or len(steps) != 1:
                return
            lty = prog.types[frame.body['locals'][pl['l']]]
            while lty['k'] == 'ref':
                lty = prog.types[lty['to']]
            if lty.get('name') != sel:
                return
            val = st.resolve(E_.expand(v)) if v[0] in ('T', 'E') else v
            some = val != A.BOT and val[0] == 'E' and any(vi == 1 for vi, _ in val[2])
            if not some:
                return
            ok = False
            detail = 'no altitude comparison on the path'
            if aidx is not None:
                for vi, fs in val[2]:
                    if vi != 1:
                        continue
                    rec = st.resolve(E_.expand(fs[0]))
                    alt = st.resolve(E_.expand(rec[1][aidx])) if rec != A.BOT and rec[0] == 'A' else A.BOT
                    ta = None
                    if alt != A.BOT and alt[0] == 'E':
                        for v2, f2 in alt[2]:
                            if v2 == 1:
                                a = E_.scalar(st, f2[0])
                                ta = a[4] if a[0] == 'I' else None
                    ac = E_.operand(st, frame, {'k': 'copy', 'pl': {'l': 2, 'p': []}})
                    ac = st.resolve(E_.expand(ac))
                    tb = None
                    if ac != A.BOT and ac[0] == 'A' and ac[1]:
                        c0 = E_.scalar(st, ac[1][0])
                        tb = c0[4] if c0[0] == 'I' else None
                    if ta is not None and tb is not None and (ta == tb or ('Eq', ta, tb) in st.facts or ('Eq', tb, ta) in st.facts
                                                               or (E_.entails_le(st, ta, tb) and E_.entails_le(st, tb, ta))):
                        ok = True
                    else:
                        detail = 'the path to this store does not establish payload altitude (%s) == header altitude (%s)' % (A.show_term(ta) if ta else '?', A.show_term(tb) if tb else '?')
            stores.append((ok, detail, '%s:%s' % (frame.body['file'], stmt.get('sp'))))
        E.stmt_hook = sh
        cell = ('o', ('p', 'reader'))

        def pre(E_, st, fr):
            st.cells[cell] = util.synthetic_reader(E_)
        try:
            runner.run_entry(E, body, [('R', cell, (), True)] + [None] * (body['argc'] - 1), pre=pre, quiet=True)
        except A.AnalysisError as e:
            rep.fail('L3-df20-bds05', sel.split('::')[-1] + '#analysis', body['file'], 'analysis did not finish: %s' % e)
            continue
        short = sel.split('::')[-1]
        if want_some:
            rep.floor('stores of Some into %s.bds05' % short, len(stores), 1)
            bad = [s for s in stores if not s[0]]
            rep.check(not bad, 'L3-df20-bds05', short + '.bds05#altitude-guard', bad[0][2] if bad else body['file'],
                      'a DF20 payload is labelled BDS 0,5 without the altitude check: %s' % (bad[0][1] if bad else ''),
                      sample={'selector': short, 'stores of Some(bds05)': len(stores), 'guard': 'payload altitude == AC13 altitude of the header'})
        else:
            rep.check(not stores, 'L3-df20-bds05', short + '.bds05#never-some', stores[0][2] if stores else body['file'],
                      'DF21 has no altitude in its header, yet %s.bds05 is stored a Some(..)' % short, nontrivial=True)


if __name__ == '__main__':
    import facts
    prog = facts.load_program(verbose=False)
    json.dump(generate(prog), sys.stdout, indent=1)
