"""C18 - GPS time-of-week -> UTC time-of-day; start of the GPS week.

W1  since_gps_week_to_since_today(t), t in [0, 604800e9): every panic obligation discharged;
    result in [0, 86400e9); result term normalises to (t + k) mod D with D = 86400e9 and
    k = -18e9 (mod D).
W2  gps_week_in_s(s), s in [315964800, 2^40]: every panic obligation discharged; result term
    normalises to W*floor((s + a)/W) + b, W = 604800, a = 18 - 315964800, b = -a.
"""
import absint as A
import runner
import terms
from absint import T, mk_int

WEEK_NS = 604800 * 10**9
DAY_NS = 86400 * 10**9
LEAP_NS = 18 * 10**9
GPS_EPOCH = 315964800
WEEK = 604800


def fn_body(prog, rep, name):
    bs = [b for b in prog.bodies.values() if b['kind'] == 'fn' and b['crate'] == 'rs1090' and b['name'] == name]
    if len(bs) != 1:
        rep.missing(name)
        return None
    return bs[0]


def run(prog, rep, tier):
    rep.explanation = ('Interval + term abstract interpretation of the MIR of the two conversion functions over their whole '
                       'stated domain: every overflow / division Assert must be discharged, and the symbolic result term must '
                       'normalise to the closed form the property states ((t-18s) mod day; W*floor((s+a)/W)+b).')
    rep.trusted = ['rustc MIR semantics (mir-opt-level=0, overflow checks as Assert terminators)',
                   'checker/absint.py interval arithmetic', 'checker/terms.py normaliser',
                   'floor(floor(x/p)/q) = floor(x/(pq)) for x >= 0, p, q > 0']
    # ---- W1
    b1 = fn_body(prog, rep, 'decode::time::since_gps_week_to_since_today')
    if b1 is not None:
        E = runner.make_engine(prog, K=8)
        pt = T('o', ('p', 'gps_ns'))
        arg = E.reg(mk_int(0, WEEK_NS - 1, 0, pt))
        rets = runner.run_entry(E, b1, [arg])
        n = rep.absorb_engine(E, rule='W1-no-panic')
        rep.floor('W1 obligations', n, 2)
        if not rets:
            rep.fail('W1-result', 'since_gps_week_to_since_today#returns', b1['file'], 'no return state: the function cannot return on its domain')
        for st, v in rets:
            v = E.scalar(st, v)
            site = '%s:%s' % (b1['file'], b1['line'])
            ok = v[0] == 'I' and v[1] >= 0 and v[2] < DAY_NS
            rep.check(ok, 'W1-range', 'since_gps_week_to_since_today#range', site,
                      'result interval %s not within [0, 86400e9)' % (A.show_val(v),),
                      sample={'fn': b1['name'], 'arg': '[0, 604800e9)', 'result': A.show_val(v)})
            try:
                a, c, d = terms.mod_form(v[4] if v[0] == 'I' else None, pt)
                ok = a == 1 and d == DAY_NS and (c + LEAP_NS) % DAY_NS == 0
                detail = 'normal form is (%d*t + %d) mod %d; expected (t + k) mod 86400e9 with k = -18e9 (mod day)' % (a, c, d)
            except terms.NotNormal as e:
                ok = False
                detail = 'result term does not normalise to (t + k) mod D: %s; term %s' % (e, A.show_term(v[4]) if v[0] == 'I' else v[0])
            rep.check(ok, 'W1-normal-form', 'since_gps_week_to_since_today#normal-form', site, detail,
                      sample={'fn': b1['name'], 'normal_form': '(t + %s) mod %s' % (c, d) if ok else None})
    # ---- W2
    b2 = fn_body(prog, rep, 'decode::time::gps_week_in_s')
    if b2 is not None:
        E = runner.make_engine(prog, K=8)
        pt = T('o', ('p', 'now_s'))
        arg = E.reg(mk_int(GPS_EPOCH, 1 << 40, 0, pt))
        rets = runner.run_entry(E, b2, [arg])
        n = rep.absorb_engine(E, rule='W2-no-panic')
        rep.floor('W2 obligations', n, 5)
        if not rets:
            rep.fail('W2-result', 'gps_week_in_s#returns', b2['file'], 'no return state')
        for st, v in rets:
            v = E.scalar(st, v)
            site = '%s:%s' % (b2['file'], b2['line'])
            a0 = LEAP_NS // 10**9 - GPS_EPOCH
            try:
                q = terms.quasi_linear(v[4] if v[0] == 'I' else None, pt)
                ok = (q['a'] == 0 and len(q['floors']) == 1 and q['floors'][0] == (WEEK, (1, a0), WEEK)
                      and q['c'] == -a0)
                detail = 'normal form %r; expected 604800*floor((s + %d)/604800) + %d' % (q, a0, -a0)
            except terms.NotNormal as e:
                ok = False
                detail = 'result term does not normalise: %s; term %s' % (e, A.show_term(v[4]) if v[0] == 'I' else v[0])
            rep.check(ok, 'W2-normal-form', 'gps_week_in_s#normal-form', site, detail,
                      sample={'fn': b2['name'], 'normal_form': detail if ok else None})
    # who calls: the SeRo feed applies W1 to every reception (informational)
    callers = []
    for b in prog.bodies.values():
        for bb in b['blocks']:
            t = bb['t']
            if t and t['k'] == 'call' and t['callee'] and (t['callee'].get('rdid') or '').endswith('time::since_gps_week_to_since_today'):
                callers.append(b['name'])
    rep.extra['callers_of_since_gps_week_to_since_today'] = sorted(set(callers))
