"""C06 - trajectory decoding (clause-limited, see DESIGN.md §7).

I1 isolation   decode_position touches the aircraft table once, through entry(*icao24).or_insert(..) with the
               key taken from its icao24 argument; every other use of cached state goes through that entry;
               *reference is only written after the caller's callback returned true; every workspace caller
               passes the message and the address of the same record (adsb.message with adsb.icao24, cf.me
               with cf.aa).  With I3 this decides the non-interference sentence: what is decoded for one
               aircraft depends only on its own messages, its own cache entry and the reference.
I2 gates       at every store of Some(..) into AirbornePosition.latitude: the message is not older than the
               cached opposite-parity message (t - t_pair < 0 is false); a position produced by
               airborne_position went through t - t_pair < c, c <= 10 s; a position produced by
               airborne_position_with_reference went through t - latest.timestamp < c, c <= 180 s, and was
               decoded against latest.pos; if a previous position existed, distance > c (c <= 50 km) is
               false.  At every store into SurfacePosition.latitude: the position was decoded against
               latest.pos and passed distance < c, c <= 1 km, or against the receiver reference.
I3 pairing     airborne_position receives (cached message of the opposite parity from this entry, current
               message).
Not decided: "within 25 m of where the aircraft was" (needs the numerical argument relating the windows to
the distance flown); I2 shows that the anchored mechanism is in force with parameters no weaker than the
documented ones.
"""
import absint as A
import dataflow
import models
import runner
from absint import T
from props import util

LIMITS = {'pair_window_s': 10.0, 'reference_window_s': 180.0, 'airborne_gate_km': 50.0, 'surface_gate_km': 1.0}


def rooted(o, name):
    while isinstance(o, tuple) and len(o) >= 2:
        if o[0] == 'p' and o[1] == name:
            return True
        o = o[0]
    return False


def term_rooted(t, name, depth=0):
    """some atom of the term derives from the entry parameter `name`"""
    if t is None or depth > 40 or not isinstance(t, tuple):
        return False
    if t[0] in ('o', 'len', 'e') and len(t) > 1:
        return rooted(t[1], name)
    return any(term_rooted(x, name, depth + 1) for x in t[1:] if isinstance(x, tuple))


def run(prog, rep, tier):
    rep.explanation = ('Structural rules on the MIR of decode_position and of its callers (who touches the aircraft table, what is passed), and an abstract '
                       'interpretation of decode_position for an arbitrary cache entry in which every state storing a position into the message is '
                       'asked for the comparisons it went through (time windows, distance gates) and for the origin of the position.')
    rep.trusted = ['rustc MIR', 'checker/absint.py', 'BTreeMap::entry(k).or_insert(v) only exposes the value stored under k (library fact)',
                   'documented parameters: 10 s pairing window, 180 s reference window, 50 km and 1 km gates']
    body = next((b for b in prog.bodies.values() if b['id'] == 'rs1090::decode::cpr::decode_position'), None)
    if body is None:
        rep.missing('decode::cpr::decode_position')
        return
    dbg = {}
    for nm, pl in body.get('dbg') or []:
        if not pl['p']:
            dbg.setdefault(nm, []).append(pl['l'])
    need = ('timestamp', 'icao24', 'aircraft', 'reference', 'update_reference', 'latest')
    for n in need:
        if n not in dbg:
            rep.missing('local `%s` of decode_position' % n)
            return
    L = {n: dbg[n][0] for n in need}
    i1_structure(prog, rep, body, L)
    i1_callers(prog, rep)
    i2_i3(prog, rep, tier, body, L)
    i4_slot_coherence(prog, rep, body)
    # "never a wrong position" rests on the decoders decode_position calls: the rules of C04 (global decoding) and
    # C05 (reference decoding) are evaluated under this property as well
    from props import c04, c05
    c04.run(prog, util.Prefixed(rep, 'D4-global-decoder/'), tier)
    c05.run(prog, util.Prefixed(rep, 'D5-reference-decoder/'), tier)


def i1_structure(prog, rep, body, L):
    site = body['file']
    uses = []
    for bi, bb in enumerate(body['blocks']):
        for s in bb['s']:
            if s['k'] == 'assign':
                if s['pl']['l'] == L['aircraft']:
                    uses.append(('write', bi, None))
                for p in dataflow.rvalue_places(s['rv']):
                    if p['l'] == L['aircraft']:
                        uses.append(('read', bi, s['pl']['l']))
        t = bb['t']
        if t and t['k'] == 'call':
            for a in t['args']:
                if a['k'] != 'const' and a['pl']['l'] == L['aircraft']:
                    uses.append(('arg', bi, None))
    ok = len(uses) == 1 and uses[0][0] == 'read'
    entry_ok = False
    key_ok = False
    ins_ok = False
    if ok:
        tmp = uses[0][2]
        bi = uses[0][1]
        t = body['blocks'][bi]['t']
        if t and t['k'] == 'call' and t['callee'] and t['callee'].get('item') == 'entry' and 'BTreeMap' in (t['callee'].get('name') or '') \
                and t['args'][0]['k'] != 'const' and t['args'][0]['pl']['l'] == tmp:
            entry_ok = True
            # key: *icao24
            k = t['args'][1]
            if k['k'] != 'const':
                src = [s for s in body['blocks'][bi]['s'] if s['k'] == 'assign' and s['pl']['l'] == k['pl']['l']]
                key_ok = any(p['l'] == L['icao24'] for s in src for p in dataflow.rvalue_places(s['rv']))
            nxt = body['blocks'][t['t']]['t'] if t['t'] is not None else None
            if nxt and nxt['k'] == 'call' and nxt['callee'] and nxt['callee'].get('item') == 'or_insert' and nxt['args'][0]['k'] != 'const' \
                    and nxt['args'][0]['pl']['l'] == t['dest']['l'] and nxt['dest']['l'] == L['latest']:
                ins_ok = True
    rep.check(ok and entry_ok and key_ok and ins_ok, 'I1-isolation', 'decode_position#aircraft-table-use', site,
              'the aircraft table must be used exactly once, as aircraft.entry(*icao24).or_insert(..) bound to `latest` (uses: %s, entry=%s, key from icao24=%s, or_insert=%s)'
              % (uses, entry_ok, key_ok, ins_ok), sample={'uses of `aircraft`': len(uses), 'key': '*icao24'})
    # writes through `reference`
    writes = []
    for bi, bb in enumerate(body['blocks']):
        for s in bb['s']:
            if s['k'] == 'assign' and s['pl']['l'] == L['reference'] and s['pl']['p']:
                writes.append(bi)
    cb = [bi for bi, bb in enumerate(body['blocks']) if bb['t'] and bb['t']['k'] == 'call' and bb['t']['callee']
          and (bb['t']['callee'].get('item') == 'call' and 'Fn' in (bb['t']['callee'].get('name') or ''))]
    good = bool(cb) or not writes
    detail = ''
    if writes:
        tb = None
        for c in cb:
            t = body['blocks'][c]['t']
            nb = t['t']
            sw = body['blocks'][nb]['t'] if nb is not None else None
            if sw and sw['k'] == 'switch':
                # false value is 0: the true edge is `otherwise`
                zero = [x for x in sw['vals'] if x[0] == 0]
                tb = sw['otherwise'] if zero else None
        if tb is None:
            good, detail = False, 'no callback result is tested'
        else:
            reach = dataflow.reachable(body, 0, avoid={tb})
            bad = [w for w in writes if w in reach]
            good = not bad
            detail = 'block(s) %s store into *reference on a path that did not see the callback return true' % bad
    rep.check(good, 'I1-isolation', 'decode_position#reference-written-only-on-callback', site, detail or 'ok',
              sample={'stores into *reference': len(writes), 'guard': 'update_reference(airborne) == true'})


def i4_slot_coherence(prog, rep, body):
    """I4 (after seed C06-s8): the cached report of a parity and its timestamp are one datum.  On every CFG path of
    decode_position from entry to a return (through workspace helpers that receive the entry), the writes into
    AircraftState.{even,odd}_ts and AircraftState.{even,odd}_msg come together: a path that stores one kind and
    returns without the other leaves a fresh timestamp next to a stale report (or the reverse), and the 10 s
    pairing window is then measured on the wrong report.  Parity is not distinguished (no correlation between two
    `match parity` is assumed), only the kinds `ts` / `msg`."""
    summaries = {}

    def kind_of_store(b, pl):
        steps = dataflow.place_steps(prog, b, pl)
        if not steps:
            return None
        last = steps[-1]
        if (last[0] or '').endswith('AircraftState') and last[2] in ('even_ts', 'odd_ts'):
            return 'ts'
        if (last[0] or '').endswith('AircraftState') and last[2] in ('even_msg', 'odd_msg'):
            return 'msg'
        return None

    def summary(b, stack=()):
        if b['id'] in summaries:
            return summaries[b['id']]
        if b['id'] in stack:
            return {frozenset()}
        blocks = b['blocks']
        state = {0: {frozenset()}}
        work = [0]
        rets = set()
        while work:
            bi = work.pop()
            cur = set(state[bi])
            bb = blocks[bi]
            for s_ in bb['s']:
                if s_['k'] == 'assign':
                    k = kind_of_store(b, s_['pl'])
                    if k:
                        cur = {x | {k} for x in cur}
            t = bb['t']
            succ = []
            if t:
                if t['k'] == 'call':
                    c = t['callee'] or {}
                    if t.get('dest') is not None:
                        k = kind_of_store(b, t['dest'])
                        if k:
                            cur = {x | {k} for x in cur}
                    wb = prog.bodies.get(c.get('rdid') or c.get('did'))
                    if wb is not None and wb['kind'] in ('fn', 'closure') and wb['crate'] == b['crate'] and 'cpr' in wb['name']:
                        sub = summary(wb, stack + (b['id'],))
                        if sub != {frozenset()}:
                            cur = {x | y for x in cur for y in sub}
                    if t.get('t') is not None:
                        succ = [t['t']]
                elif t['k'] == 'return':
                    rets |= cur
                elif t['k'] == 'goto':
                    succ = [t['t']]
                elif t['k'] == 'switch':
                    succ = [x[1] for x in t['vals']] + [t['otherwise']]
                elif t['k'] in ('drop', 'assert'):
                    succ = [t['t']]
            for s2 in succ:
                old = state.get(s2, set())
                new = old | cur
                if new != old:
                    state[s2] = new
                    work.append(s2)
        summaries[b['id']] = rets or {frozenset()}
        return summaries[b['id']]
    paths = summary(body)
    site = '%s:%s' % (body['file'], body['line'])
    rep.floor('write patterns of decode_position on the parity slots', len(paths), 2)
    rep.check(frozenset(('ts', 'msg')) in paths, 'I4-slot-coherence', 'decode_position#stores-both', site,
              'no path of decode_position stores both a report and its timestamp into the aircraft entry (patterns: %s)' % sorted(map(sorted, paths)))
    for pth in sorted(paths, key=sorted):
        rep.check(pth in (frozenset(), frozenset(('ts', 'msg'))), 'I4-slot-coherence', 'decode_position#path-writes-%s' % ('+'.join(sorted(pth)) or 'nothing'), site,
                  'a path of decode_position returns after storing only the %s of a parity slot: the cached report and its timestamp no longer belong together' % ' / '.join(sorted(pth)),
                  sample={'pattern': sorted(pth)})


def _ts_in(prog, b, op, seen=None, depth=0):
    seen = seen if seen is not None else set()
    if op['k'] == 'const':
        return ['a constant']
    pl = op['pl']
    steps = dataflow.place_steps(prog, b, pl)
    if steps:
        last = steps[-1]
        return [] if ((last[0] or '').endswith('TimedMessage') and last[2] == 'timestamp') else ['%s.%s' % ((last[0] or '?').split('::')[-1], last[2])]
    if pl['p'] or pl['l'] in seen or depth > 8:
        return ['an untracked place']
    seen.add(pl['l'])
    if 1 <= pl['l'] <= b['argc']:
        return ['parameter _%d of %s' % (pl['l'], b['name'])]
    bad, nd = [], 0
    for bb2 in b['blocks']:
        for s_ in bb2['s']:
            if s_['k'] == 'assign' and s_['pl']['l'] == pl['l'] and not s_['pl']['p']:
                nd += 1
                if s_['rv']['k'] == 'use':
                    bad += _ts_in(prog, b, s_['rv']['op'], seen, depth + 1)
                else:
                    bad.append('a computed value (%s)' % s_['rv']['k'])
        t2 = bb2['t']
        if t2 and t2['k'] == 'call' and t2.get('dest') and t2['dest']['l'] == pl['l'] and not t2['dest']['p']:
            nd += 1
            bad.append('the result of %s' % ((t2['callee'] or {}).get('name') or 'a call'))
    return bad if nd else ['an undefined temporary']


def i1_callers(prog, rep):
    n = 0
    for b in prog.bodies.values():
        for bi, bb in enumerate(b['blocks']):
            t = bb['t']
            if not (t and t['k'] == 'call' and t['callee'] and (t['callee'].get('rname') or t['callee'].get('name') or '').endswith('cpr::decode_position')):
                continue
            n += 1

            def origins(local, want_field=None, seen=None, depth=0):
                """all places a temporary may have been borrowed from (over every definition in the body, through
                copies, re-borrows, tuples built and taken apart again): [(base local, [(type, variant, field)..])]"""
                seen = seen if seen is not None else set()
                if (local, want_field) in seen or depth > 12:
                    return []
                seen.add((local, want_field))
                out = []
                for bb2 in b['blocks']:
                    for s_ in bb2['s']:
                        if s_['k'] != 'assign' or s_['pl']['l'] != local or s_['pl']['p']:
                            continue
                        rv = s_['rv']
                        if rv['k'] == 'agg' and want_field is not None and want_field < len(rv['ops']):
                            o = rv['ops'][want_field]
                            if o['k'] != 'const':
                                out += origins(o['pl']['l'], _proj_field(o['pl']), seen, depth + 1) if not _is_borrow_path(o['pl']) else []
                            continue
                        if want_field is not None:
                            continue
                        pls = dataflow.rvalue_places(rv)
                        if not pls:
                            continue
                        pl = pls[0]
                        steps = dataflow.place_steps(prog, b, pl)
                        if rv['k'] in ('ref', 'rawptr') and steps:
                            out.append((pl['l'], [(s2[0], s2[1], s2[2]) for s2 in steps]))
                        elif rv['k'] in ('use', 'cast', 'ref', 'rawptr'):
                            flds = [e for e in pl['p'] if e[0] == 'field']
                            if len(flds) == 1 and not steps_named(steps):
                                out += origins(pl['l'], flds[0][1], seen, depth + 1)      # (tuple).i
                            else:
                                out += origins(pl['l'], None, seen, depth + 1)
                return out

            def steps_named(steps):
                return any(s2[0] and s2[0] not in ('closure', 'coroutine') for s2 in steps)

            def _proj_field(pl):
                return None

            def _is_borrow_path(pl):
                return False
            a0 = origins(t['args'][0]['pl']['l']) if t['args'][0]['k'] != 'const' else []
            a2 = origins(t['args'][2]['pl']['l']) if t['args'][2]['k'] != 'const' else []
            ok = bool(a0) and bool(a2)
            why = 'cannot resolve the borrowed places (%s, %s)' % (a0, a2)
            pairs = []
            if ok:
                def kind(o):
                    f = o[1][-1]
                    return ((f[0] or '').split('::')[-1], f[2])
                for o0 in a0:
                    mates = [o2 for o2 in a2 if o2[0] == o0[0] and o2[1][:-1] == o0[1][:-1] and o2[1][-1][0] == o0[1][-1][0]]
                    good = [o2 for o2 in mates if (kind(o0), kind(o2)) in ((('ADSB', 'message'), ('ADSB', 'icao24')), (('ControlField', 'me'), ('ControlField', 'aa')))]
                    pairs.append((kind(o0), [kind(o2) for o2 in mates]))
                    if not good:
                        ok = False
                for o2 in a2:
                    if not any(o0[0] == o2[0] and o0[1][:-1] == o2[1][:-1] for o0 in a0):
                        ok = False
                why = 'message / address places: %s' % pairs
            rep.check(ok, 'I1-isolation', 'caller#%s#%d' % (b['name'], bi), '%s:%s' % (b['file'], t.get('sp')),
                      'decode_position must receive the message and the address of the same record: ' + why,
                      sample={'caller': b['name'], 'pair': why} if n <= 2 else None)
            # the timestamp handed over is the record's own reception time: a copy of <TimedMessage>.timestamp
            # (added after seed C06-s7, which passed a running maximum over all aircraft instead)
            def ts_defs(op, seen=None, depth=0):
                seen = seen if seen is not None else set()
                if op['k'] == 'const':
                    return ['a constant']
                pl = op['pl']
                steps = dataflow.place_steps(prog, b, pl)
                if steps:
                    last = steps[-1]
                    return [] if ((last[0] or '').endswith('TimedMessage') and last[2] == 'timestamp') else ['%s.%s' % ((last[0] or '?').split('::')[-1], last[2])]
                if pl['p'] or pl['l'] in seen or depth > 8:
                    return ['an untracked place']
                seen.add(pl['l'])
                if 1 <= pl['l'] <= b['argc']:
                    # a parameter of an extracted helper: what its callers hand over (one level up)
                    sites = []
                    for cb in prog.bodies.values():
                        for cbb in cb['blocks']:
                            ct = cbb['t']
                            if ct and ct['k'] == 'call' and ct['callee'] and (ct['callee'].get('rdid') or ct['callee'].get('did')) == b['id'] and len(ct['args']) >= pl['l']:
                                sites.append((cb, ct['args'][pl['l'] - 1]))
                    if not sites or depth > 0 or b['kind'] != 'fn':
                        return ['parameter _%d' % pl['l']]
                    bad = []
                    for cb, aop in sites:
                        bad += _ts_in(prog, cb, aop)
                    return bad
                bad, nd = [], 0
                for bb2 in b['blocks']:
                    for s_ in bb2['s']:
                        if s_['k'] == 'assign' and s_['pl']['l'] == pl['l'] and not s_['pl']['p']:
                            nd += 1
                            rv = s_['rv']
                            if rv['k'] == 'use':
                                bad += ts_defs(rv['op'], seen, depth + 1)
                            else:
                                bad.append('a computed value (%s)' % rv['k'])
                    t2 = bb2['t']
                    if t2 and t2['k'] == 'call' and t2.get('dest') and t2['dest']['l'] == pl['l'] and not t2['dest']['p']:
                        nd += 1
                        bad.append('the result of %s' % ((t2['callee'] or {}).get('name') or 'a call'))
                return bad if nd else ['an undefined temporary']
            tsbad = ts_defs(t['args'][1])
            rep.check(not tsbad, 'I1-isolation', 'caller#%s#%d#timestamp' % (b['name'], bi), '%s:%s' % (b['file'], t.get('sp')),
                      'decode_position must receive the reception time of the record it decodes (a copy of TimedMessage.timestamp); it receives %s' % sorted(set(tsbad)),
                      sample={'caller': b['name'], 'timestamp': 'TimedMessage.timestamp'} if n <= 2 else None)
    rep.floor('call sites of decode_position', n, 3)


def i2_i3(prog, rep, tier, body, L):
    old = A.TERM_LIMIT
    A.TERM_LIMIT = 60
    try:
        _i2_i3(prog, rep, tier, body, L)
    finally:
        A.TERM_LIMIT = old


def _i2_i3(prog, rep, tier, body, L):
    site = body['file']
    E = runner.make_engine(prog, K=32 if tier == 'quick' else 64)
    fns = {}
    for nm in ('airborne_position', 'airborne_position_with_reference', 'surface_position_with_reference', 'dist_haversine'):
        f = util.find_fn(prog, 'decode::cpr::' + nm, crate='rs1090')
        if f is None:
            rep.missing('decode::cpr::' + nm)
            return
        fns[nm] = f
    dist_atoms = set()
    call_args = {}        # (fn, caller bb) -> list of argument term tuples

    class Src:
        def __init__(self, name):
            self.name = name

        def entry(self, E_, nf, ins):
            bb = nf.path[-1][1]
            for st in ins:
                if self.name == 'airborne_position':
                    o = st.cells.get((nf.depth, 1))
                    o = st.resolve(E_.expand(o)) if o is not None else A.BOT
                    m = None
                    if o != A.BOT and o[0] == 'R':
                        m = _entry_field(E_, st, st.resolve(E_.expand(models.deref(E_, st, o))))
                    st.tags = st.tags | {('PAIRMSG', m)}
                if self.name != 'dist_haversine':
                    # the position stored later may come from any decoder called on the path
                    st.tags = st.tags | {('SRC', self.name, bb)}
                vals = []
                for i in range(1, nf.body['argc'] + 1):
                    v = st.cells.get((nf.depth, i))
                    vals.append(v)
                call_args.setdefault((self.name, bb), []).append((st, vals))

        def exit(self, E_, nf, rets):
            bb = nf.path[-1][1]
            for i, (st, v) in enumerate(rets):
                if self.name == 'dist_haversine':
                    x = E_.scalar(st, v)
                    if __import__('os').environ.get('C06DBG'):
                        print('DIST', x[:4])
                    if x[0] == 'F':
                        t = T('o', ('dist', bb, i))        # a small atom: the comparison against the gate constant keeps its term
                        dist_atoms.add(t)
                        rets[i] = (st, E_.reg(('F', x[1], x[2], x[3], t)))
                    continue
    for nm, f in fns.items():
        E.hooks[f['id']] = Src(nm)
    writes = []

    def known_bools(st):
        out = []
        for t, iv in st.rf.items():
            if t[0] in ('Lt', 'Le', 'Gt', 'Ge') and iv[0] == iv[1]:
                out.append((t, bool(iv[0])))
        return out

    def sh(E_, st, frame, bb, idx, stmt, v):
        if frame.depth != 0:
            return
        if __import__('os').environ.get('C06DBG') and bb in (33, 35, 37) :
            print('AT', bb, idx, sorted([tg for tg in st.tags if tg[0] == 'GATE'], key=str), st.erf.get(('e', ((('s', 0, 1, 'x'), '*'), 1))))
        steps = dataflow.place_steps(prog, frame.body, stmt['pl'])
        if not steps or steps[-1][2] != 'latitude' or not steps[-1][0]:
            return
        owner = steps[-1][0].split('::')[-1]
        if owner not in ('AirbornePosition', 'SurfacePosition'):
            return
        val = st.resolve(E_.expand(v))
        if val == A.BOT or val[0] != 'E' or not any(vi == 1 for vi, _ in val[2]):
            return
        # cached previous position of this entry
        latest = st.resolve(E_.expand(E_.operand(st, frame, {'k': 'copy', 'pl': {'l': L['latest'], 'p': []}})))
        ent = models.deref(E_, st, latest) if latest != A.BOT and latest[0] == 'R' else None
        par = None
        if owner == 'AirbornePosition':
            rec_ = st.resolve(E_.expand(E_.read_lv(st, E_.lvalue(st, frame, {'l': stmt['pl']['l'], 'p': stmt['pl']['p'][:-1]}), None)))
            pi_ = _field(prog, 'decode::bds::bds05::AirbornePosition', 'parity')
            if rec_ != A.BOT and rec_[0] == 'A' and pi_ is not None:
                pv = st.resolve(E_.expand(rec_[1][pi_]))
                if pv != A.BOT and pv[0] == 'E' and len(pv[2]) == 1:
                    par = pv[2][0][0]
        tsv = E_.scalar(st, E_.operand(st, frame, {'k': 'copy', 'pl': {'l': L['timestamp'], 'p': []}}))
        writes.append((owner, bb, stmt.get('sp'), known_bools(st), set(tg for tg in st.tags if tg[0] == 'SRC'), ent, st, tsv[4] if tsv[0] == 'F' else None, set(st.tags), par))
    orig_assume = E.assume

    def assume(st, t, truth):
        # passing a distance gate is remembered as a path tag: tags are intersected at joins and states
        # with different tags are never merged
        r = orig_assume(st, t, truth)
        if __import__('os').environ.get('C06DBG') and t is not None and len(t) == 3 and t[2] == T('c', 50.0):
            print('ASSUME', A.show_term(t)[:80], truth, r, t[1] in dist_atoms)
        if r and t is not None and t[0] in ('Gt', 'Lt', 'Ge', 'Le') and len(t) == 3 and t[1] in dist_atoms and t[2][0] == 'c':
            st.tags = st.tags | {('GATE', t[0], bool(truth), t[2][1])}
        if r and t is not None and t[0] == 'Lt' and len(t) == 3 and t[2][0] == 'c' and t[1][0] == 'Sub' and len(t[1]) == 3 \
                and term_rooted(t[1][1], 'arg%d' % L['timestamp']) and t[1][2][0] == 'o':
            # timestamp - <field k of the cache entry> < c
            org = t[1][2][1]
            k = org[-1] if isinstance(org, tuple) and _origin_is_site(org) else None
            st.tags = st.tags | {('TIME', k, t[2][1], bool(truth))}
        return r
    E.assume = assume
    E.stmt_hook = sh
    E.keep_rf = lambda t: t[0] in ('Gt', 'Lt', 'Ge', 'Le') and t[1] in dist_atoms
    runner.run_entry(E, body)
    n = rep.absorb_engine(E, rule='I2-no-panic')
    rep.floor('obligations in decode_position', n, 4)
    rep.floor('position stores analysed', len(writes), 4)
    consts = {'pair': set(), 'ref': set(), 'air_gate': set(), 'surf_gate': set()}
    na = ns = 0
    for owner, bb, sp, bools, tags, ent, st, t_ts, alltags, par in writes:
        where = '%s:%s' % (site, sp)
        srcs = sorted(set(tg[1] for tg in tags))
        if owner == 'AirbornePosition':
            na += 1
            key = 'airborne-store#%d' % na
            # not older than the cached opposite-parity message
            fts = _field(prog, 'decode::cpr::AircraftState', 'timestamp')
            slots = {0: ('odd_ts', 'odd_msg'), 1: ('even_ts', 'even_msg')}       # parity of the message -> slot of the other parity
            exp = slots.get(par)
            rep.check(exp is not None, 'I3-pairing', key + '#parity-known', where, 'the parity of the message being decoded is not determined on this path', nontrivial=False)
            if exp is None:
                continue
            pair_fields = (_field(prog, 'decode::cpr::AircraftState', exp[0]),)
            pm = [tg[1] for tg in alltags if tg[0] == 'PAIRMSG']
            if 'airborne_position' in srcs:
                rep.check(pm and all(m_ == _field(prog, 'decode::cpr::AircraftState', exp[1]) for m_ in pm), 'I3-pairing', key + '#opposite-slot', where,
                          'the message paired with a parity-%d report comes from slot %s of the cache entry, expected %s' % (par, pm, exp[1]), nontrivial=True)
            times = [tg for tg in alltags if tg[0] == 'TIME']
            older = [tg for tg in times if tg[1] in pair_fields and tg[2] >= 0.0 and not tg[3]]
            rep.check(bool(older), 'I2-gates', key + '#not-older', where, 'a position is stored although `timestamp - t_pair < 0` was not ruled out (comparisons passed: %s)' % sorted(times, key=str), nontrivial=True)
            if 'airborne_position' in srcs:
                w = [tg[2] for tg in times if tg[1] in pair_fields and tg[2] > 0 and tg[3]]
                c = min(w, default=None)
                consts['pair'].update(w)
                rep.check(c is not None and c <= LIMITS['pair_window_s'], 'I2-gates', key + '#pair-window', where,
                          'a position decoded from an even/odd pair is stored without `timestamp - t_pair < %s` (found: %s)' % (LIMITS['pair_window_s'], c),
                          sample={'store': key, 'pair window': c} if na <= 3 else None)
            if 'airborne_position_with_reference' in srcs:
                w = [tg[2] for tg in times if tg[1] == fts and tg[2] > 0 and tg[3]]
                c = min(w, default=None)
                consts['ref'].update(w)
                rep.check(c is not None and c <= LIMITS['reference_window_s'], 'I2-gates', key + '#reference-window', where,
                          'a position decoded against the previous position is stored without `timestamp - latest.timestamp < %s` (found: %s)' % (LIMITS['reference_window_s'], c),
                          sample={'store': key, 'reference window': c} if na <= 3 else None)
            if not srcs:
                rep.fail('I2-gates', key + '#origin', where, 'a position of unknown origin is stored into the message')
            # plausibility gate
            if __import__('os').environ.get('C06DBG'):
                print('DBG', [(A.show_term(t)[:90], v_) for t, v_ in bools], len(dist_atoms), had_prev if False else '')
            gate = [tg[3] for tg in alltags if tg[0] == 'GATE' and ((tg[1] == 'Gt' and not tg[2]) or (tg[1] == 'Le' and tg[2]))]
            c = min(gate, default=None)
            consts['air_gate'].update(gate)
            had_prev = True
            if ent is not None:
                e2 = st.resolve(E.expand(ent))
                fld = _field(prog, 'decode::cpr::AircraftState', 'pos')
                if e2 != A.BOT and e2[0] == 'A' and fld is not None:
                    pv = st.resolve(E.expand(e2[1][fld]))
                    if pv != A.BOT and pv[0] == 'E' and all(vi == 0 for vi, _ in pv[2]):
                        had_prev = False
            if __import__('os').environ.get('C06DBG') and c is None:
                print('PREV', had_prev, bb, [(A.show_term(t)[:70], v_) for t, v_ in st.rf.items() if '6371' in str(t)[:400]], len(st.rf))
            rep.check((c is not None and c <= LIMITS['airborne_gate_km']) or not had_prev, 'I2-gates', key + '#plausibility', where,
                      'a position is stored although a previous position exists and `distance > %s km` was not ruled out (found: %s)' % (LIMITS['airborne_gate_km'], c),
                      sample={'store': key, 'gate km': c, 'previous position': had_prev} if na <= 3 else None)
        else:
            ns += 1
            key = 'surface-store#%d' % ns
            near = [tg[3] for tg in alltags if tg[0] == 'GATE' and ((tg[1] == 'Lt' and tg[2]) or (tg[1] == 'Ge' and not tg[2]))]
            c = min(near, default=None)
            consts['surf_gate'].update(near)
            from_reference = False
            for tg in tags:
                if tg[1] != 'surface_position_with_reference':
                    continue
                for st0, vals in call_args.get((tg[1], tg[2]), []):
                    a = [E.scalar(st0, x) if x is not None else None for x in vals[1:3]]
                    if all(x is not None and x[0] == 'F' and term_rooted(x[4], 'arg%d' % L['reference']) for x in a):
                        from_reference = True
            rep.check((c is not None and c <= LIMITS['surface_gate_km']) or from_reference, 'I2-gates', key + '#origin', where,
                      'a surface position is stored that neither passed `distance < %s km` from the previous position nor was decoded against the receiver reference (gate found: %s)'
                      % (LIMITS['surface_gate_km'], c), sample={'store': key, 'gate km': c, 'decoded against the receiver reference': from_reference} if ns <= 3 else None)
    rep.floor('airborne stores', na, 2)
    rep.floor('surface stores', ns, 1)
    # reference decode uses latest.pos; pairing uses the cached opposite-parity message
    refcalls = [(k, v) for k, v in call_args.items() if k[0] == 'airborne_position_with_reference']
    rep.floor('calls of airborne_position_with_reference', len(refcalls), 1)
    for (nm, bb), lst in refcalls:
        ok = True
        for st0, vals in lst:
            a = [E.scalar(st0, x) if x is not None else None for x in vals[1:3]]
            if not all(x is not None and x[0] == 'F' and x[4] is not None and _from_entry(x[4]) for x in a):
                ok = False
        rep.check(ok, 'I2-gates', 'reference-decode#uses-latest-pos@%d' % bb, site,
                  'airborne_position_with_reference is not called with the previous position of this aircraft\'s cache entry', nontrivial=True)
    paircalls = [(k, v) for k, v in call_args.items() if k[0] == 'airborne_position']
    rep.floor('calls of airborne_position', len(paircalls), 1)
    amsg = _local_named(body, 'airborne')
    for (nm, bb), lst in paircalls:
        ok = True
        why = ''
        for st0, vals in lst:
            old_, new_ = vals[0], vals[1]
            o = st0.resolve(E.expand(old_)) if old_ is not None else A.BOT
            nw = st0.resolve(E.expand(new_)) if new_ is not None else A.BOT
            # newest = the message being decoded (reference into the `message` argument)
            if nw == A.BOT or nw[0] != 'R' or not _cell_rooted(nw[1], 'arg1'):
                ok, why = False, 'second argument is not the current message'
            if o == A.BOT or o[0] != 'R':
                ok, why = False, 'first argument is not a reference'
            else:
                ov = st0.resolve(E.expand(models.deref(E, st0, o)))
                if not _value_from_entry(E, st0, ov):
                    ok, why = False, 'first argument does not come from the cache entry'
        rep.check(ok, 'I3-pairing', 'airborne_position#arguments@%d' % bb, site, 'airborne_position must receive (cached opposite-parity message, current message): ' + why,
                  sample={'call block': bb, 'first': 'cached message of the entry', 'second': 'current message'})
    rep.ok('I2-gates', 'constants#extracted', False, {'extracted constants': {k: sorted(v) for k, v in consts.items()}})


def _entry_field(E, st, v, depth=0):
    """index of the cache-entry field a value was read from (origin ((<or_insert site>, '*'), k), ..)"""
    def from_origin(o):
        while isinstance(o, tuple) and len(o) >= 2:
            if isinstance(o[0], tuple) and len(o[0]) == 2 and o[0][1] == '*' and isinstance(o[0][0], tuple) and o[0][0] and o[0][0][0] == 's' and isinstance(o[1], int):
                return o[1]
            o = o[0]
        return None

    def from_term(t, d=0):
        if t is None or d > 30 or not isinstance(t, tuple):
            return None
        if t[0] in ('o', 'e', 'len') and len(t) > 1:
            return from_origin(t[1])
        for x in t[1:]:
            if isinstance(x, tuple):
                r = from_term(x, d + 1)
                if r is not None:
                    return r
        return None
    if v == A.BOT or depth > 4:
        return None
    if v[0] == 'T':
        return from_origin(v[2]) if v[2] is not None else None
    if v[0] in ('I', 'F'):
        return from_term(v[4])
    if v[0] == 'E':
        r = from_term(v[1]) if v[1] is not None else None
        if r is not None:
            return r
        for _, fs in v[2]:
            for x in fs:
                r = _entry_field(E, st, x, depth + 1)
                if r is not None:
                    return r
    if v[0] == 'A':
        for x in v[1]:
            r = _entry_field(E, st, x, depth + 1)
            if r is not None:
                return r
    return None


def _field(prog, tyname, fname):
    ty = util.adt_type(prog, tyname)
    if ty is None:
        return None
    return next((i for i, f in enumerate(ty['variants'][0]['fields']) if f['name'] == fname), None)


def _local_named(body, name):
    for nm, pl in body.get('dbg') or []:
        if nm == name and not pl['p']:
            return pl['l']
    return None


def _from_entry(t, depth=0):
    """some atom of the term originates from the value returned by or_insert (an external-call site)"""
    if t is None or depth > 40 or not isinstance(t, tuple):
        return False
    if t[0] in ('o', 'e', 'len') and len(t) > 1:
        return _origin_is_site(t[1])
    return any(_from_entry(x, depth + 1) for x in t[1:] if isinstance(x, tuple))


def _origin_is_site(o):
    while isinstance(o, tuple) and len(o) >= 2:
        if o[0] == 's':
            return True
        if o[0] == 'p':
            return False
        o = o[0]
    return False


def _cell_rooted(cell, name):
    o = cell
    if isinstance(o, tuple) and o and o[0] == 'o':
        return rooted(o[1], name)
    return rooted(o, name)


def _value_from_entry(E, st, v, depth=0):
    if v == A.BOT or depth > 4:
        return False
    if v[0] in ('I', 'F'):
        return _from_entry(v[4])
    if v[0] == 'T':
        return _origin_is_site(v[2]) if v[2] is not None else False
    if v[0] == 'A':
        return any(_value_from_entry(E, st, st.resolve(E.expand(x)) if x[0] in ('T', 'I', 'F', 'E') else x, depth + 1) for x in v[1])
    if v[0] == 'E':
        if v[1] is not None and _from_entry(v[1]):
            return True
        return any(_value_from_entry(E, st, x, depth + 1) for _, fs in v[2] for x in fs)
    return False
