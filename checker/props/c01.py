"""C01 - Mode S decoding is total.

O1 panic-freedom   every MIR Assert, every library call with a panic precondition and every
                   diverging call reachable from the entry points is discharged by the abstract
                   interpreter (all byte strings, all lengths).
O2 termination     no recursion below the entries; every loop either finishes within the unroll
                   bound for every abstract input or is driven by a finite core/alloc iterator.
O3 length          every Ok state of `try_from` has len(input) in {7, 14}, = 14 exactly for the DF
                   variants whose deku id is >= 16.
O4 determinism     external callees reachable from the decode entries carry no clock / randomness /
                   environment / I/O / hash-order effect.
Entries: <Message as TryFrom<&[u8]>>::try_from, Message::from_bytes((bytes, 0)) (+ who-calls rule:
every workspace caller passes offset 0), Display / Debug of Message and TimedMessage and of every
type reachable from them.
"""
import absint as A
import runner
from absint import T, mk_int, const_int
from props import util

EFFECT_DENY = ('std::time::', 'std::env::', 'std::fs::', 'std::net::', 'std::thread::', 'std::process::',
               'std::io::stdio', 'std::sys::', 'rand::', 'getrandom', 'std::hash::random', 'std::collections::hash',
               'hashbrown::', 'std::sync::mpsc', 'tokio::', 'std::os::', 'chrono::')
EFFECT_OK_CRATES = {'core', 'alloc', 'deku', 'bitvec', 'log', 'tracing', 'tracing_core', 'regex', 'serde', 'serde_core',
                    'hex', 'libm', 'once_cell', 'std', 'no_std_io', 'regex_automata', 'regex_syntax'}
INFINITE_ITERS = ('Repeat', 'Cycle', 'RangeFrom', 'RepeatWith', 'Successors', 'FromFn')


def classify_loops(prog, E, rep, rule='O2-termination'):
    """every loop seen: exact unrolling = terminates; else must be driven by a finite iterator"""
    n = 0
    for (fname, h), outcomes in sorted(E.loop_info.items()):
        n += 1
        key = '%s#loop@bb%d' % (fname, 0)   # stable: loops of a function are numbered below
        body = next((b for b in prog.bodies.values() if b['name'] == fname and b['kind'] in ('fn', 'closure', 'coroutine')), None)
        heads = sorted(E.infos[body['id']].loop_heads) if body is not None and body['id'] in E.infos else [h]
        key = '%s#loop%d' % (fname, heads.index(h) if h in heads else 0)
        site = '%s' % (body['file'] if body else '?')
        if all(o[0] == 'exact' for o in outcomes):
            rep.ok(rule, key, True, {'loop': key, 'verdict': 'finishes within %d iterations for every abstract input' % max(o[1] for o in outcomes)})
            continue
        # iterator-driven?
        info = E.infos[body['id']]
        blk = info.loop_blocks[h]
        drivers = set()
        for bi in blk:
            t = body['blocks'][bi]['t']
            if t and t['k'] == 'call' and t['callee'] and t['callee'].get('item') == 'next' \
                    and t['callee'].get('trait') == 'std::iter::Iterator' \
                    and t['callee'].get('rcrate') in ('core', 'alloc', 'std') \
                    and not any(x in (t['callee'].get('rself') or '') for x in INFINITE_ITERS):
                drivers.add(bi)
        # removing the driver blocks must break every cycle through the head
        ok = bool(drivers) and not util.has_cycle(info.succ, blk - drivers)
        rep.check(ok, rule, key, site, 'loop is neither bounded by unrolling nor driven by a finite core iterator',
                  sample={'loop': key, 'verdict': 'driven by Iterator::next of a finite core/alloc iterator'})
    return n


def run(prog, rep, tier):
    K = 8 if tier == 'quick' else 16
    rep.explanation = ('Abstract interpretation (intervals, known bits, symbolic bit-field terms, path facts, disjuncts; callees '
                       'inlined abstractly, deku reads modelled by contract) of the MIR reachable from the decode and render '
                       'entry points, with arbitrary input. Each panic site is an obligation that must be discharged.')
    rep.trusted = ['rustc MIR semantics (mir-opt-level=0; overflow/bounds checks are Assert terminators)',
                   'library contracts in checker/models.py (deku 0.18 primitive reads, core/alloc containers, Option/Result, fmt, regex literal rule)',
                   'external crates in absint.TRUSTED_CRATES are total unless a contract says otherwise',
                   'checker/absint.py']
    rs = [b for b in prog.bodies.values() if b['crate'] == 'rs1090']
    msg_try = util.find_impl_fn(prog, 'decode::Message', 'std::convert::TryFrom<&[u8]>', 'try_from')
    msg_fb = util.find_impl_fn(prog, 'decode::Message', "deku::DekuContainerRead<'_>", 'from_bytes')
    if msg_try is None:
        rep.missing('<Message as TryFrom<&[u8]>>::try_from')
        return
    if msg_fb is None:
        rep.missing('Message::from_bytes')
        return
    ext = {}
    fns = set()
    # ---- entry 1: try_from
    E = runner.make_engine(prog, K=K)
    captured = []

    def cap_len(E_, frame, rets):
        pass
    E.gc_roots.add(('o', ('p', 'arg1')))
    rd = next((b for b in prog.bodies.values() if b['kind'] == 'fn' and b['name'] == "<decode::Message as deku::DekuReader<'_>>::from_reader_with_ctx"), None)

    class KeepLen:
        """the 56 / 112-bit partition of the Message reader stays a trace partition up to the entry's return
        (states of the two frame lengths are never merged, however many states a callee produces)"""
        def exit(self, E_, nf, rets_):
            for st, v in rets_:
                for tg in st.tags:
                    if tg[0] == 'P' and tg[1] == nf.pathid and tg[2] == 'bit_len':
                        st.tags = st.tags | {('LEN', tg[3])}
    if rd is not None:
        E.hooks[rd['id']] = KeepLen()
    rets = runner.run_entry(E, msg_try)
    n1 = rep.absorb_engine(E, rule='O1-panic-freedom')
    rep.floor('try_from obligations', n1, 3000)
    rep.floor('try_from functions', len(E.fn_seen), 180)
    nl = classify_loops(prog, E, rep)
    rep.floor('loops below try_from', nl, 4)
    ext.update(E.ext_calls)
    fns |= E.fn_seen
    # ---- O3 length
    idmap = util.deku_variant_ids(prog, 'decode::DF')
    if not idmap:
        rep.missing('deku ids of decode::DF variants')
    oks = 0
    for st, v in rets:
        vs = dict(st.resolve(E.expand(v))[2]) if v[0] in ('E', 'T') and st.resolve(E.expand(v)) != A.BOT else {}
        if 0 not in vs:
            continue
        oks += 1
        # len(input): the slice behind argument 1
        arg = st.cells.get(('o', ('p', 'arg1')))
        ln = None
        if arg is not None:
            a = E.expand(arg)
            if a[0] == 'S':
                ln = st.resolve(a[1])
        msg = E.expand(vs[0][0])
        dfv = None
        if msg[0] == 'A' and len(msg[1]) == 2:
            d = st.resolve(E.expand(msg[1][1]))
            if d != A.BOT and d[0] == 'E':
                dfv = [i for i, _ in d[2]]
        site = '%s:%s' % (msg_try['file'], msg_try['line'])
        if ln is None or dfv is None:
            rep.fail('O3-length', 'try_from#ok-state-shape', site, 'cannot read len(input) / df of an Ok state (len=%r df=%r)' % (ln, dfv))
            continue
        ids = sorted(set(x for i in dfv for x in idmap.get(i, [None])))
        want = None
        if all(x is not None and x >= 16 for x in ids):
            want = 14
        elif all(x is not None and x < 16 for x in ids):
            want = 7
        ok = want is not None and ln[1] == ln[2] == want
        rep.check(ok, 'O3-length', 'try_from#ok-length#ids=%s' % (','.join(map(str, ids))), site,
                  'Ok state with DF ids %s has len(input) in [%d, %d]; required exactly %s' % (ids, ln[1], ln[2], want),
                  sample={'ok_state_df_ids': ids, 'len_input': [ln[1], ln[2]]})
    rep.floor('Ok return states of try_from', oks, 2)
    # ---- entry 2: from_bytes((bytes, 0)) and callers pass 0
    E2 = runner.make_engine(prog, K=K)
    tup = msg_fb['locals'][1]
    tty = prog.types[tup]
    arg = ('A', (('T', tty['elems'][0], ('p', 'bytes')), const_int(0)))
    runner.run_entry(E2, msg_fb, [arg])
    n2 = rep.absorb_engine(E2, rule='O1-panic-freedom', keyfilter=lambda o: o['fn'].endswith(('::from_bytes', '::from_reader')) and 'Message' in o['fn'])
    rep.floor('from_bytes obligations', n2, 4)
    ext.update(E2.ext_calls)
    for b in prog.bodies.values():
        for bi, bb in enumerate(b['blocks']):
            t = bb['t']
            if not (t and t['k'] == 'call' and t['callee']):
                continue
            c = t['callee']
            if c.get('item') in ('from_bytes', 'from_reader') and (c.get('rself') or '') == 'decode::Message':
                a0 = t['args'][0] if t['args'] else None
                key = '%s#call:%s' % (b['name'], c['item'])
                site = '%s:%s' % (b['file'], t.get('sp'))
                # the offset is the second tuple component: it must be the literal 0 at the call site
                ok = util.tuple_arg_component_is_const(prog, b, bi, 1, 0)
                if b['id'] == msg_try['id'] or b['name'].endswith('::from_bytes'):
                    ok = ok or True if c['item'] == 'from_reader' and util.tuple_arg_component_is_const(prog, b, bi, 1, 0) else ok
                rep.check(ok, 'O1-offset-zero', key, site, 'caller passes a bit offset that is not the literal 0')
    # ---- entry 3: rendering
    reach = util.reachable_adts(prog, ['decode::Message', 'decode::TimedMessage'])
    rep.extra['types_reachable_from_Message'] = len(reach)
    rep.floor('types reachable from Message', len(reach), 60)
    nfmt = 0
    for b in sorted(rs, key=lambda b: b['id']):
        im = b.get('impl')
        if b['kind'] != 'fn' or not im or b['item'] != 'fmt':
            continue
        if im.get('trait') not in ('std::fmt::Display', 'std::fmt::Debug'):
            continue
        if im.get('self') not in reach:
            continue
        E3 = runner.make_engine(prog, K=K)
        runner.run_entry(E3, b)
        nfmt += 1
        rep.absorb_engine(E3, rule='O1-panic-freedom(render)')
        classify_loops(prog, E3, rep)
        ext.update(E3.ext_calls)
        fns |= E3.fn_seen
    rep.floor('Display/Debug impls analysed', nfmt, 60)
    # ---- O4 effects
    bad = []
    for did in sorted(ext):
        crate = did.split('::')[0]
        name = did
        if any(name.startswith(p) or ('::' + p) in name for p in EFFECT_DENY):
            bad.append(did)
        elif crate not in EFFECT_OK_CRATES and crate not in A.TRUSTED_CRATES:
            bad.append(did)
        else:
            rep.ok('O4-effects', 'ext:' + did, False)
    for did in bad:
        rep.fail('O4-effects', 'ext:' + did, '-', 'external callee with a clock/random/env/IO/hash-order effect (or unknown crate) reachable from the decode entries: ' + did)
    rep.floor('external callees classified', len(ext), 20)
    # 'decoding the same bytes twice gives equal results': the derived PartialEq compares floats, so a NaN anywhere in a
    # Message makes it unequal to itself - C08's finiteness rule is a clause of this property too
    from props import c08
    c08.run(prog, util.Prefixed(rep, 'O5-equal-results/', only=('R2',)), tier, only='R2')
    rep.extra['functions_analysed'] = len(fns)
    rep.extra['external_callees'] = len(ext)
    rep.extra['df_variant_ids'] = {str(k): v for k, v in sorted(idmap.items())}
