"""C05 - reference-based CPR decoding (clause-limited, see DESIGN.md §7).

Entries airborne_position_with_reference / surface_position_with_reference with an arbitrary message and
an arbitrary finite reference.
G0 totality     no panic obligation is open (nl(lat) - 1 does not underflow, casts, divisions).
G1 latitude     in every Some state the returned latitude lies in [-90, 90] and neither coordinate is NaN.
G2 lat gate     every Some state carries the path fact |LAT - reference latitude| <= H where LAT is the very
                term returned as latitude and H evaluates to half the zone height of the message's parity
                (airborne 360/60, 360/59; surface 90/60, 90/59).
G3 lon gate     every Some state carries |LON - reference longitude| <= HL with LON the returned longitude;
                HL, evaluated for every value 1..59 of the NL function's result admitted by the state,
                equals half of  Z / max(NL - i, 1)  (Z = 360 airborne, 90 surface; i the parity).
G4 NL argument  the NL function is only called with the decoded latitude (the term returned), never with
                the reference.
G5 no wrap      the longitude tested by the gate is the decoded expression itself, not one shifted by a multiple of
                360 before the test (a target just across the 180th meridian from its reference would be refused;
                after seed C05-s4).
Not decided: the 10 m exactness for references within range (a statement about the rounding of the
floor() expression over a continuum); G2-G4 are its structural necessary conditions and decide the
second sentence of the property (result absent or within half a zone of the reference).
"""
import absint as A
import runner
import terms
from absint import T
from props import util

MAXF = 1.7976931348623157e308


def run(prog, rep, tier):
    rep.explanation = ('Abstract interpretation of the two reference-based decoders for any message and any finite reference; the path facts of every '
                       'state returning Some(position) are inspected: latitude range, half-zone gates on both coordinates with the zone sizes of the '
                       'standard (evaluated for every NL value), argument of the NL function.')
    rep.trusted = ['rustc MIR', 'checker/absint.py (path facts are only recorded for comparisons whose operands cannot be NaN)', 'libm floor/fabs contracts',
                   'zone sizes 360/(60 - i), 360/max(NL - i, 1) (surface: 90) transcribed from DO-260B A.1.7']
    old_limit = A.TERM_LIMIT
    A.TERM_LIMIT = 160            # the decoded coordinates are kept as whole expressions
    try:
        for fn, Z in (('airborne_position_with_reference', 360.0), ('surface_position_with_reference', 90.0)):
            one(prog, rep, tier, fn, Z)
    finally:
        A.TERM_LIMIT = old_limit
    # both decoders rest on nl(): C04's rule N1 (decision list = 59-zone formula) is evaluated here too, so that a
    # change of the NL table is reported under this property as well
    from props import c04
    c04.run(prog, util.Prefixed(rep, 'G6/'), tier, only='N1')


def one(prog, rep, tier, fn, Z):
    body = util.find_fn(prog, 'decode::cpr::' + fn, crate='rs1090')
    if body is None:
        rep.missing('decode::cpr::' + fn)
        return
    E = runner.make_engine(prog, K=16 if tier == 'quick' else 32)
    t_lat, t_lon = T('o', ('p', 'latitude_ref')), T('o', ('p', 'longitude_ref'))
    nl_args = []

    def ch(E_, frame, bb, t, sts, c):
        if (c.get('rname') or c.get('name') or '').endswith('cpr::nl'):        # at any depth (the call may sit in a helper)
            for st in sts:
                a = E_.scalar(st, E_.operand(st, frame, t['args'][0]))
                nl_args.append(a[4] if a[0] == 'F' else None)
    E.call_hook = ch
    f_nl = util.find_fn(prog, 'decode::cpr::nl', crate='rs1090')
    if f_nl is None:
        rep.missing('decode::cpr::nl')
        return
    tokens = {}

    class NlHook:
        """nl() is summarised as the pure function with range 1..59 it is shown to be by C04 rule N1:
        its result is the atom nl(<token of the argument term>)"""
        def entry(self, E_, nf, ins):
            E_.gc_roots.add((nf.depth, 1))
            self.saved = [s_.copy() for s_ in ins]
            del ins[:]          # the body is not run here (nl() is analysed on its own by C04 rule N1)

        def exit(self, E_, nf, rets_):
            new = []
            for st in self.saved:        # pure function: the pre-state is the post-state
                a = E_.scalar(st, st.cells[(nf.depth, 1)]) if (nf.depth, 1) in st.cells else None
                if a is not None and a[0] == 'F' and a[4] is not None:
                    tok = tokens.setdefault(a[4], T('tok', len(tokens)))
                    new.append((st, E_.reg(A.mk_int(1, 59, 0, T('nl', tok)))))
                else:
                    new.append((st, A.mk_int(1, 59)))
            rets_[:] = new
    E.hooks[f_nl['id']] = NlHook()
    E.keep_fact = lambda f: isinstance(f[1], tuple) and f[1][0] == 'discr'
    E.partitions[body['name']] = {'d_lat'}          # states of the two parities are never merged
    rets = runner.run_entry(E, body, [None, E.reg(('F', -MAXF, MAXF, False, t_lat)), E.reg(('F', -MAXF, MAXF, False, t_lon))])
    n = rep.absorb_engine(E, rule='G0-totality')
    rep.floor('obligations in ' + fn, n, 1)
    msg_ty = prog.types[body['locals'][1]]
    while msg_ty['k'] == 'ref':
        msg_ty = prog.types[msg_ty['to']]
    pidx = next((i for i, f in enumerate(msg_ty['variants'][0]['fields']) if f['name'] == 'parity'), None)
    nsome = 0
    for k, (st, v) in enumerate(rets):
        r = st.resolve(E.expand(v))
        if r == A.BOT or r[0] != 'E':
            rep.fail('G1-latitude', fn + '#return-shape', body['file'], 'return value is not an Option')
            continue
        for vi, fs in r[2]:
            if vi != 1:
                continue
            nsome += 1
            pos = E.expand(fs[0])
            lat, lon = E.scalar(st, pos[1][0]), E.scalar(st, pos[1][1])
            key = '%s#some%d' % (fn, nsome)
            ok1 = lat[0] == 'F' and not lat[3] and -90.0 <= lat[1] and lat[2] <= 90.0 and lon[0] == 'F' and not lon[3]
            rep.check(ok1, 'G1-latitude', key + '#range', body['file'],
                      'a returned position has latitude %s, longitude %s (latitude must be in [-90, 90], no NaN)' % (A.show_val(lat), A.show_val(lon)),
                      sample={'fn': fn, 'latitude': [lat[1], lat[2]]} if nsome == 1 else None)
            # parity of the message in this state
            par = None
            pars = set()
            for f in st.facts:
                # `msg.parity == CPRFormat::Even` compares the discriminant of field `parity` of the message with 0
                if f[0] in ('Eq', 'Ne') and isinstance(f[1], tuple) and f[1][0] == 'discr' and f[2] == T('c', 0):
                    org = f[1][1]
                    if org[0] == 'e' and isinstance(org[1], tuple) and org[1][-1] == pidx and _rooted_in_param(org[1], 'arg1'):
                        pars.add(0 if f[0] == 'Eq' else 1)
            if len(pars) == 1:
                par = pars.pop()
            elif __import__('os').environ.get('C05DBG'):
                print('PARS', pars, [f for f in st.facts if 'discr' in str(f[1])[:12]], sorted(st.tags))
            gates = {}
            for f in st.facts:
                if f[0] in ('Le', 'Lt') and isinstance(f[1], tuple) and f[1][0] == 'fabs' and f[1][1][0] == 'Sub':
                    gates[(f[1][1][1], f[1][1][2])] = (f[0], f[2])
            # G2
            g = gates.get((lat[4], t_lat)) if lat[0] == 'F' else None
            ok2, why = False, 'no fact |latitude - reference| <= .. on the path'
            if g is not None:
                h = E.eval_term(st, g[1])
                exp = [Z / 60.0 / 2.0, Z / 59.0 / 2.0]
                want = exp[par] if par in (0, 1) else None
                if h is not None and h[0] == 'F' and h[1] == h[2] and (h[1] == want if want is not None else h[1] in exp):
                    ok2 = True
                else:
                    why = 'the latitude gate is %s, half a zone is %s' % (A.show_val(h) if h else A.show_term(g[1]), want if want is not None else exp)
            rep.check(ok2, 'G2-lat-gate', key + '#lat-gate', body['file'], '%s returns a position whose latitude is not gated to half a zone of the reference: %s' % (fn, why),
                      sample={'fn': fn, 'parity': par, 'gate': A.show_term(g[1]) if g else None} if nsome <= 2 else None)
            # G3
            g = gates.get((lon[4], t_lon)) if lon[0] == 'F' else None
            ok3, why = False, 'no fact |longitude - reference| <= .. on the path'
            ncomb = 0
            if g is not None:
                ats = [a for a in terms.atoms_of(g[1])]
                if len(ats) == 0:
                    h = E.eval_term(st, g[1])
                    # NL - i <= 0: a single zone
                    ok3 = h is not None and h[0] == 'F' and h[1] == h[2] == Z / 2.0
                    why = 'constant gate %s, expected %s' % (A.show_val(h) if h else '?', Z / 2.0)
                    ncomb = 1
                elif len(ats) == 1 and par in (0, 1) and ats[0][0] == 'nl' and lat[0] == 'F' and tokens.get(lat[4]) == ats[0][1]:
                    lo, hi = 1, 59              # range of the NL function (C04 rule N1)
                    ok3 = True
                    for nlv in range(lo, hi + 1):
                        if not admits(E, st, {ats[0]: nlv}):
                            continue            # this state's path condition excludes the value (e.g. NL - i > 0)
                        try:
                            got = terms.point_eval(g[1], {ats[0]: nlv})
                        except terms.NotNormal as e:
                            ok3, why = False, 'gate not evaluable: %s' % e
                            break
                        ncomb += 1
                        want = Z / max(nlv - par, 1) / 2.0
                        if got != want:
                            ok3, why = False, 'for NL = %d (parity %d) the longitude gate is %r, half a zone is %r' % (nlv, par, got, want)
                            break
                    if ok3 and ncomb == 0:
                        ok3, why = False, 'no NL value is admitted by the path condition'
                else:
                    why = 'gate %s is not a function of NL(decoded latitude) alone (unknowns %d, parity %s)' % (A.show_term(g[1]), len(ats), par)
            rep.check(ok3, 'G3-lon-gate', key + '#lon-gate', body['file'], '%s returns a position whose longitude is not gated to half a zone of the reference: %s' % (fn, why),
                      sample={'fn': fn, 'parity': par, 'NL values evaluated': ncomb} if nsome <= 2 else None)
            # G5
            if lon[0] == 'F' and lon[4] is not None:
                tl = lon[4]
                shifted = tl[0] in ('Sub', 'Add') and len(tl) == 3 and any(x[0] == 'c' and abs(x[1]) in (360.0, 180.0, 720.0) for x in tl[1:])
                rep.check(not shifted, 'G5-no-wrap-before-gate', key + '#raw-longitude', body['file'],
                          '%s normalises the longitude (%s) before the half-zone test: a target across the 180th meridian from its reference is refused'
                          % (fn, A.show_term(tl)[:90]), nontrivial=True)
            # G4
            used = [a for a in nl_args]
            rep.check(lat[0] == 'F' and lat[4] is not None and lat[4] in used, 'G4-nl-argument', key + '#nl-arg', body['file'],
                      'the number of longitude zones is not computed from the decoded latitude: NL was called with %s' % sorted(set(A.show_term(a)[:60] if a else '?' for a in used)),
                      nontrivial=True)
    rep.floor('Some return states of ' + fn, nsome, 2)
    bad_args = [a for a in nl_args if a is None or a == t_lat]
    rep.check(not bad_args and nl_args, 'G4-nl-argument', fn + '#nl-never-reference', body['file'], 'NL is called with the reference latitude / an unknown value', nontrivial=True)


def admits(E, st, env):
    """the refinements and facts of the state that only speak about the assigned atoms hold under the assignment"""
    keys = set(env)
    for t, iv in st.rf.items():
        if t in env:
            if not (iv[0] <= env[t] <= iv[1]):
                return False
            continue
        ats = terms.atoms_of(t)
        if ats and ats <= keys:
            try:
                v = terms.point_eval(t, env)
            except terms.NotNormal:
                continue
            if v != v or not (iv[0] <= v <= iv[1]):
                return False
    for f in st.facts:
        if f[0] in ('Eq', 'Ne', 'Lt', 'Le', 'Gt', 'Ge') and isinstance(f[1], tuple) and isinstance(f[2], tuple):
            ats = terms.atoms_of(f[1]) | terms.atoms_of(f[2])
            if ats and ats <= keys:
                try:
                    if not terms.point_eval((f[0], f[1], f[2]), env):
                        return False
                except terms.NotNormal:
                    continue
    return True


def _rooted_in_param(o, name):
    while isinstance(o, tuple) and len(o) == 2:
        if o[0] == 'p' and o[1] == name:
            return True
        o = o[0]
    return False


def _frame0(E, body):
    path = ((('entry', body['name']), 0),)
    return A.Frame(0, body, path, E.pathid(path), E.info(body))
