"""C15 - FLARM decoding (clause-limited, see DESIGN.md §7).

X1 totality     every panic obligation below Flarm::from_record(any u32, any &[f64; 2] incl. NaN and
                infinities, any &[u8]) is discharged; no recursion; the XXTEA rounds (`while sum != 0`,
                a wrapping counter) and the inner word loop finish within the unroll bound for every
                abstract input, every other loop is driven by a finite core iterator.
X2 finiteness   in every Ok state each floating-point field of the record is finite.  The two reference
                fields are byte copies of the caller's reference: for them the rule is that the
                reference is finite on every path that reaches the deku reader (a guard dominates it).
X3 track        in every Ok state  0 <= track < 360.
X4 effects      nothing below the entry reads a clock / environment / randomness.
X5 window       (necessary condition of the round trip) decode_latitude / decode_longitude executed abstractly
                for every 32-bit word and several constant references: the result stays within half the
                ambiguity range (2^18 resp. 2^19 steps of 128e-7 degrees; the packet carries 19 / 20 bits)
                of the reference, and reaches both ends of that window.
K1 key table    (necessary condition of the round trip; after seed C15-s3) make_key chooses between two key tables by
                exactly bit 23 of the timestamp (the condition's bit normal form is {0: 23} of the time argument);
                the table used when the bit is set / clear is the published KEY1B / KEY1.
Not decided: the inversion of an independent encoder/encryptor (round trip): it quantifies over the
values produced by a second implementation; no structural rule stands for it.
"""
import absint as A
import models
import runner
import terms
from props import util
from props.c01 import classify_loops, EFFECT_DENY, EFFECT_OK_CRATES

INF = float('inf')


def run(prog, rep, tier):
    rep.explanation = ('Abstract interpretation of Flarm::from_record for an arbitrary timestamp, reference (any f64 incl. NaN/inf) and byte string: '
                       'panic obligations, loop bounds, and the interval (with NaN flag) of every float field of every Ok state.')
    rep.trusted = ['rustc MIR', 'checker/absint.py (IEEE round-to-nearest interval arithmetic)',
                   'library contracts in checker/models.py (deku primitive reads, Vec, iterator adaptors, libm atan2/sqrt, f64::rem_euclid)']
    entry = next((b for b in prog.bodies.values() if b['kind'] == 'fn' and b['name'] == 'decode::flarm::Flarm::from_record' and b['crate'] == 'rs1090'), None)
    fl = util.adt_type(prog, 'decode::flarm::Flarm')
    if entry is None or fl is None:
        rep.missing('decode::flarm::Flarm::from_record / Flarm')
        return
    E = runner.make_engine(prog, K=8 if tier == 'quick' else 16)
    guard = {'seen': 0, 'bad': []}

    def call_hook(E_, frame, bb, t, sts, c):
        # X2-echo: the reference handed to the reader is finite
        if frame.depth == 0 and c.get('item') == 'from_bytes' and 'Flarm' in (c.get('name') or ''):
            for st in sts:
                guard['seen'] += 1
                ref = st.resolve(E_.expand(frame_arg(E_, st, frame, 1)))
                arr = models.deref(E_, st, ref) if ref != A.BOT and ref[0] == 'R' else ref
                arr = st.resolve(E_.expand(arr)) if arr != A.BOT else arr
                comps = []
                if arr != A.BOT and arr[0] == 'A':
                    comps = [E_.scalar(st, x) for x in arr[1]]
                elif arr != A.BOT and arr[0] == 'S':
                    comps = [E_.scalar(st, x) for x in arr[3]] if arr[3] is not None else [E_.scalar(st, arr[2])]
                if len(comps) < 1 or not all(x[0] == 'F' and not x[3] and x[1] > -INF and x[2] < INF for x in comps):
                    guard['bad'].append([A.show_val(x) if x != A.BOT and x[0] in 'IF' else str(x)[:40] for x in comps])
    E.call_hook = call_hook
    rets = runner.run_entry(E, entry)
    n = rep.absorb_engine(E, rule='X1-totality')
    rep.floor('obligations below from_record', n, 120)
    nl = classify_loops(prog, E, rep, rule='X1-termination')
    rep.floor('loops below from_record', nl, 2)
    rep.check(guard['seen'] > 0 and not guard['bad'], 'X2-reference-finite', 'from_record#reference-guard', entry['file'],
              'the reference position is copied into the record (reference_lat / reference_lon) and may be non-finite when the reader is called: %s'
              % (guard['bad'][:2] if guard['seen'] else 'call of Flarm::from_bytes not found'),
              sample={'paths reaching Flarm::from_bytes': guard['seen'], 'reference': 'finite on each'})
    fields = fl['variants'][0]['fields']
    nok = 0
    worst = {}
    for st, v in rets:
        r = E.deep_resolve(st, v)
        if r == A.BOT or r[0] != 'E':
            rep.fail('X2-finite', 'from_record#return-shape', entry['file'], 'return value is not a Result: %s' % str(r)[:80])
            continue
        for idx, payload in r[2]:
            if idx != 0:
                continue
            nok += 1
            rec = E.deep_resolve(st, E.expand(payload[0]))
            if rec == A.BOT or rec[0] != 'A' or len(rec[1]) != len(fields):
                rep.fail('X2-finite', 'from_record#record-shape', entry['file'], 'Ok payload is not a Flarm record: %s' % str(rec)[:80])
                continue
            for f, x in zip(fields, rec[1]):
                ty = prog.types[f['ty']] if f.get('ty') is not None else None
                if ty is None or ty['k'] != 'float':
                    continue
                x = E.scalar(st, x, f['ty'])
                cur = worst.get(f['name'])
                if x[0] != 'F':
                    worst[f['name']] = ('?', -INF, INF, True)
                    continue
                if cur is None:
                    worst[f['name']] = ('F', x[1], x[2], x[3])
                else:
                    worst[f['name']] = ('F', min(cur[1], x[1]), max(cur[2], x[2]), cur[3] or x[3])
    rep.floor('Ok return states of from_record', nok, 1)
    # X6 (after seed C15-s11, which read the altitude through a signed shift and clamped it): the GPS altitude of every Ok
    # record is 13 unsigned bits taken bit for bit, in order, from one word expression - a necessary condition of "the same
    # altitude" (every altitude of 0..8191 m is reportable); which word and which offset is not decided (the decrypted words are opaque)
    alts = []
    for st, v in rets:
        r = E.deep_resolve(st, v)
        if r == A.BOT or r[0] != 'E':
            continue
        for idx, payload in r[2]:
            if idx != 0:
                continue
            rec = E.deep_resolve(st, E.expand(payload[0]))
            if rec == A.BOT or rec[0] != 'A' or len(rec[1]) != len(fields):
                continue
            for f, x in zip(fields, rec[1]):
                if f['name'] == 'geoaltitude':
                    x = E.scalar(st, x, f['ty'])
                    why = None
                    if x[0] != 'I' or x[1] < 0 or x[2] > 8191:
                        why = 'its interval is %s' % A.show_val(x)[:60]
                    else:
                        try:
                            bf, atom = terms.bit_form(x[4], 32)
                            if sorted(bf) != list(range(13)) or any(bf[i] - bf[0] != i for i in range(13)):
                                why = 'its bits come from source bits %s' % bf
                        except terms.NotNormal as e:
                            why = 'it is not a bit selection of one word (%s): %s' % (e, A.show_term(x[4])[:100] if x[4] else None)
                    alts.append(why)
    rep.floor('altitude values of Ok records', len(alts), 1)
    bad = [w for w in alts if w]
    rep.check(not bad, 'X6-altitude-bits', 'Flarm.geoaltitude#13-unsigned-bits', entry['file'],
              'the GPS altitude of an Ok record is not 13 unsigned bits of the decrypted packet taken in order: %s' % (bad[0] if bad else ''),
              sample={'field': 'geoaltitude', 'states': len(alts), 'form': '13 consecutive bits of one word, unsigned'})
    rep.floor('float fields of Flarm', len(worst), 7)
    for name, w in sorted(worst.items()):
        finite = w[0] == 'F' and not w[3] and w[1] > -INF and w[2] < INF
        if name in ('reference_lat', 'reference_lon'):
            # byte copies of the argument: decided by X2-reference-finite
            rep.ok('X2-finite', 'Flarm.%s#echo' % name, False, None)
            continue
        rep.check(finite, 'X2-finite', 'Flarm.%s#finite' % name, entry['file'],
                  'field %s of an Ok record may be %s' % (name, 'NaN' if w[3] else 'infinite' if w[0] == 'F' else 'anything'),
                  sample={'field': name, 'interval': [w[1], w[2]], 'nan': w[3]})
        if name == 'track':
            rep.check(finite and w[1] >= 0.0 and w[2] < 360.0, 'X3-track', 'Flarm.track#range', entry['file'],
                      'track of an Ok record ranges over [%s, %s]%s, not [0, 360)' % (w[1], w[2], ' or NaN' if w[3] else ''),
                      sample={'field': 'track', 'interval': [w[1], w[2]]})
    if 'track' not in worst:
        rep.missing('Flarm.track')
    # X5 window of the position reconstruction
    from absint import mk_int, T
    STEP = 128e-7
    for fn, nbits, refs in (('decode_latitude', 19, (0.0, 46.0, -33.3, 89.9)), ('decode_longitude', 20, (0.0, 7.0, -120.25, 179.9))):
        body = next((b for b in prog.bodies.values() if b['kind'] == 'fn' and b['name'] == 'decode::flarm::Flarm::' + fn), None)
        if body is None:
            rep.missing('Flarm::' + fn)
            continue
        W = (1 << (nbits - 1)) * STEP
        for r in refs:
            E5 = runner.make_engine(prog, K=8)
            rets5 = runner.run_entry(E5, body, [E5.reg(mk_int(0, (1 << 32) - 1, 0, T('o', ('p', 'word')))), ('F', r, r, False, None)], quiet=True)
            lo, hi, nan = INF, -INF, False
            for st, v in rets5:
                v = E5.deep_resolve(st, v)
                if v == A.BOT or v[0] != 'E':
                    nan = True
                    continue
                for idx, pl in v[2]:
                    if idx == 0:
                        x = E5.scalar(st, pl[0])
                        if x[0] != 'F':
                            nan = True
                        else:
                            lo, hi, nan = min(lo, x[1]), max(hi, x[2]), nan or x[3]
            inside = not nan and lo >= r - W - 2 * STEP and hi <= r + W + 2 * STEP
            covers = not nan and lo <= r - W + 3 * STEP and hi >= r + W - 3 * STEP
            rep.check(inside and covers, 'X5-window', '%s#window@%s' % (fn, r), body['file'],
                      '%s with reference %s returns values in [%s, %s] (offsets %+.5f .. %+.5f); the %d-bit field gives a window of +-%.5f degrees around the reference%s'
                      % (fn, r, lo, hi, lo - r, hi - r, nbits, W, '' if inside else ': a target inside the window is decoded outside it'),
                      sample={'fn': fn, 'reference': r, 'offsets': [lo - r, hi - r], 'window': W})
    k1_key_table(prog, rep)
    k2_sign_safe_shifts(prog, rep)
    # X4 effects
    ne = 0
    for did, cnt in sorted(E.ext_calls.items()):
        name = E.ext_names.get(did, did)
        ne += 1
        bad = any(did.startswith(p) or name.startswith(p) for p in EFFECT_DENY)
        crate = did.split('::')[0]
        rep.check(not bad and (crate in EFFECT_OK_CRATES or did == 'indirect'), 'X4-effects', 'effect#' + did, entry['file'],
                  'external callee %s below from_record is outside the pure set' % name, nontrivial=False)


def frame_arg(E, st, frame, i):
    """value of the i-th parameter (0-based) of the frame's body"""
    return E.operand(st, frame, {'k': 'copy', 'pl': {'l': i + 1, 'p': []}})


KEY1 = [0xe43276df, 0xdca83759, 0x9802b8ac, 0x4675a56b]
KEY1B = [0xfc78ea65, 0x804b90ea, 0xb76542cd, 0x329dfa32]


def k2_sign_safe_shifts(prog, rep):
    """K2 (necessary condition of the round trip; after seed C15-s7): the key schedule is defined on unsigned 32-bit
    quantities.  Below the function that calls make_key (so with the casts it applies to the timestamp and the
    address), every right shift inside make_key / its closures / obscure whose left operand has a signed type acts
    on a value that cannot be negative - otherwise the shift is arithmetic and the key differs from the published
    schedule for those timestamps (seed: `timestamp as i32`, wrong from 2038 on)."""
    mk = next((b for b in prog.bodies.values() if b['kind'] == 'fn' and b['name'] == 'decode::flarm::make_key' and b['crate'] == 'rs1090'), None)
    if mk is None:
        rep.missing('decode::flarm::make_key')
        return
    callers = [b for b in prog.bodies.values() if b['crate'] == 'rs1090' and any(
        bb['t'] and bb['t']['k'] == 'call' and bb['t']['callee'] and (bb['t']['callee'].get('rdid') or bb['t']['callee'].get('did')) == mk['id'] for bb in b['blocks'])]
    rep.floor('callers of make_key', len(callers), 1)
    shifts = {}

    def is_signed(frame, op):
        ty = None
        if op['k'] in ('copy', 'move') and not op['pl']['p']:
            ty = prog.types[frame.body['locals'][op['pl']['l']]]
        elif op['k'] == 'const' and 'ty' in op:
            ty = prog.types[op['ty']]
        return ty is None or ty['k'] != 'uint'

    for caller in callers:
        E = runner.make_engine(prog, K=8)

        def sh(E_, st, frame, bb, idx, stmt, v):
            nm = frame.body['name']
            if not (nm.startswith('decode::flarm::make_key') or nm == 'decode::flarm::obscure'):
                return
            rv = stmt['rv']
            if rv['k'] != 'bin' or rv['op'] != 'Shr' or not is_signed(frame, rv['l']):
                return
            x = E_.scalar(st, E_.operand(st, frame, rv['l']))
            key = (nm, stmt.get('sp'))
            lo = x[1] if x[0] == 'I' else None
            old = shifts.get(key)
            shifts[key] = lo if old is None or (lo is not None and old is not None and lo < old) else (None if lo is None else old)
            if lo is None:
                shifts[key] = None
        E.stmt_hook = sh
        runner.run_entry(E, caller, quiet=True)
    rep.floor('right shifts of signed values in the key schedule', len(shifts), 2)
    for (nm, sp), lo in sorted(shifts.items(), key=str):
        rep.check(lo is not None and lo >= 0, 'K2-unsigned-schedule', '%s#shr' % nm.split('::')[-1] if '{' not in nm else 'make_key-closure#shr', '%s:%s' % (mk['file'], sp),
                  'a right shift in %s acts on a signed value that can be negative (lowest value %s): the shift is arithmetic there and the key differs from the published unsigned schedule' % (nm, lo),
                  sample={'fn': nm, 'lowest_operand': lo})


def k1_key_table(prog, rep):
    import terms
    from absint import T, mk_int
    body = next((b for b in prog.bodies.values() if b['kind'] == 'fn' and b['name'] == 'decode::flarm::make_key' and b['crate'] == 'rs1090'), None)
    if body is None:
        rep.missing('decode::flarm::make_key')
        return
    E = runner.make_engine(prog, K=8)
    t_time = T('o', ('p', 'time'))
    seen = []

    def ch(E_, frame, bb, t, sts, c):
        if frame.depth != 0 or c.get('item') != 'map' or 'array' not in (c.get('rdid') or c.get('did') or c.get('name') or ''):
            return
        for st in sts:
            arr = st.resolve(E_.expand(E_.operand(st, frame, t['args'][0])))
            items = None
            if arr != A.BOT and arr[0] == 'S' and arr[3] is not None:
                items = [E_.scalar(st, x) for x in arr[3]]
            elif arr != A.BOT and arr[0] == 'A':
                items = [E_.scalar(st, x) for x in arr[1]]
            tab = [x[1] & 0xFFFFFFFF for x in items] if items and all(x[0] == 'I' and x[1] == x[2] for x in items) else None
            conds = []
            for f in st.facts:
                if f[0] in ('Eq', 'Ne') and f[2] == T('c', 0) and isinstance(f[1], tuple) and f[1][0] in ('BitAnd', 'Shr'):
                    conds.append((f[0], f[1]))
            for tm, iv in st.rf.items():
                if tm[0] in ('BitAnd',) and iv[0] == iv[1]:
                    conds.append(('Eq' if iv[0] == 0 else 'Ne', tm))
            seen.append((tab, conds))
    E.call_hook = ch
    runner.run_entry(E, body, [E.reg(mk_int(0, (1 << 32) - 1, 0, t_time)), None], quiet=True)
    rep.floor('key-table selections in make_key', len(seen), 2)
    got = {}
    for tab, conds in seen:
        bit = None
        val = None
        for op, tm in conds:
            try:
                m, atom = terms.bit_form(tm, width=64)
            except terms.NotNormal:
                continue
            if atom == t_time and list(m.keys()) == [0]:
                bit = m[0]
                val = 1 if op == 'Ne' else 0
        got[val] = (bit, tab)
    ok = set(got) == {0, 1} and all(got[v][0] == 23 for v in (0, 1))
    rep.check(ok, 'K1-key-table', 'make_key#selection-bit', body['file'],
              'the key table is not selected by bit 23 of the timestamp alone (bit found per branch: %s)' % {v: got[v][0] for v in got},
              sample={'selection bit': 23, 'branches': sorted(str(k) for k in got)})
    if ok:
        rep.check(got[1][1] == KEY1B and got[0][1] == KEY1, 'K1-key-table', 'make_key#tables', body['file'],
                  'key tables differ from the published ones: bit set -> %s, bit clear -> %s' % ([hex(x) for x in got[1][1]] if got[1][1] else None, [hex(x) for x in got[0][1]] if got[0][1] else None),
                  sample={'bit 23 set': 'KEY1B', 'bit 23 clear': 'KEY1'})
