"""C11 - output filters keep exactly the records whose shown df and icao24 match.

F1  in Filters::is_in, for every DF variant of an address-carrying format (0, 4, 5, 11, 16, 17, 18,
    20, 21): the place handed to aircraft_in is the field the serializer writes under `icao24` for
    that variant, and the constant handed to df_in is the variant's serialised `df` tag
    (both read from the shapes of TimedMessage, checker/shapes.py).
F2  aircraft_in / df_in return  not-some or contains or empty ; is_in is their conjunction for a
    decoded message and false for an undecoded one.
"""
import absint as A
import runner
import shapes
from absint import T, mk_int
from props import util

ADDR_DF = (0, 4, 5, 11, 16, 17, 18, 20, 21)


def engine_path_to_src(prog, root_ty, path):
    """engine reference path (ints, ('v', k)) -> shapes source path with Option steps removed"""
    out = []
    cur = shapes.strip_ref(prog, root_ty)
    var = None
    for e in path:
        if isinstance(e, tuple) and e[0] == 'v':
            var = e[1]
            continue
        if not isinstance(e, int):
            return None
        ty = prog.types[cur]
        if ty['k'] != 'adt':
            return None
        v = ty['variants'][var if var is not None else 0]
        if e >= len(v['fields']) or 'ty' not in v['fields'][e]:
            return None
        if ty['name'] not in ('core::option::Option', 'std::option::Option'):
            out.append((var, e))
        cur = shapes.strip_ref(prog, v['fields'][e]['ty'])
        var = None
    return tuple(out)


def run(prog, rep, tier):
    rep.explanation = ('The per-DF match arms of Filters::is_in are executed abstractly with an arbitrary record; the reference handed to '
                       'aircraft_in and the constant handed to df_in in each arm are compared with the icao24 source field and df tag that '
                       'the serde shapes give for the same DF variant. The two predicates are then summarised and the return states '
                       'of is_in / aircraft_in / df_in are checked against the stated boolean function.')
    rep.trusted = ['rustc MIR', 'checker/shapes.py (serde semantics)', 'checker/absint.py', 'Vec::contains / is_empty are pure predicates of the filter list']
    is_in = util.find_fn(prog, 'filters::Filters::is_in', crate='jet1090')
    ain = util.find_fn(prog, 'filters::Filters::aircraft_in', crate='jet1090')
    dfin = util.find_fn(prog, 'filters::Filters::df_in', crate='jet1090')
    for nm, b in (('Filters::is_in', is_in), ('Filters::aircraft_in', ain), ('Filters::df_in', dfin)):
        if b is None:
            rep.missing(nm)
    if None in (is_in, ain, dfin):
        return
    tm = util.adt_type(prog, 'rs1090::decode::TimedMessage') or util.adt_type(prog, 'decode::TimedMessage')
    dft = util.adt_type(prog, 'rs1090::decode::DF') or util.adt_type(prog, 'decode::DF')
    if tm is None or dft is None:
        rep.missing('TimedMessage / DF types')
        return
    S = shapes.Shapes(prog)
    tm_r = util.adt_type(prog, 'decode::TimedMessage')
    alts = S.shape(tm_r['id'])
    idmap = util.deku_variant_ids(prog, 'decode::DF')
    want = {}
    for a in alts:
        dv = next((v for t, v in (a.get('via') or []) if t == 'decode::DF'), None)
        if dv is None or a['errors']:
            continue
        vi = next(i for i, v in enumerate(util.adt_type(prog, 'decode::DF')['variants']) if v['name'] == dv)
        k = a['keys'].get('icao24')
        w = want.setdefault(vi, {'name': dv, 'df': set(), 'src': set()})
        w['df'].add((a['keys'].get('df') or {}).get('const'))
        w['src'].add(k['src'] if k else None)
    rep.floor('DF variants with shapes', len(want), 9)
    # ---- F1
    E = runner.make_engine(prog, K=32)
    seen = {}
    mcell = ('o', ('p', 'arg2'))
    E.gc_roots.add(mcell)
    AIN, DFIN = T('o', ('p', 'aircraft_in')), T('o', ('p', 'df_in'))

    def variants_of_msg(E_, st):
        m = st.cells.get(mcell)
        if m is None:
            return None
        m = E_.expand(m)
        fi = next(i for i, f in enumerate(tm['variants'][0]['fields']) if f['name'] == 'message')
        om = st.resolve(E_.expand(m[1][fi])) if m[0] == 'A' else None
        if om in (None, A.BOT) or om[0] != 'E':
            return None
        vs = dict(om[2])
        if 1 not in vs:
            return []
        msg = E_.expand(vs[1][0])
        if msg[0] != 'A':
            return None
        d = st.resolve(E_.expand(msg[1][1]))
        return sorted(i for i, _ in d[2]) if d != A.BOT and d[0] == 'E' else None

    def call_hook(E_, frame, b, t, sts, c):
        if frame.depth != 0:
            return
        rd = c.get('rdid')
        if rd == ain['id']:
            for st in sts:
                vs = variants_of_msg(E_, st)
                a = E_.expand(E_.operand(st, frame, t['args'][1]))
                p = engine_path_to_src(prog, tm['id'], a[2]) if a[0] == 'R' and a[1] == mcell else None
                seen.setdefault('ain', []).append((vs, p, t.get('sp')))
        elif rd == dfin['id']:
            for st in sts:
                vs = variants_of_msg(E_, st)
                lit = util.const_bytes_of_operand(prog, frame.body, t['args'][1])
                if lit is None:
                    import models
                    lit = models.const_bytes_of(E_, st, E_.operand(st, frame, t['args'][1]))      # the literal reached the call through a local
                seen.setdefault('dfin', []).append((vs, lit.decode() if lit is not None else None, t.get('sp'), E_.ival(st, AIN)))
    E.call_hook = call_hook

    class Summ:
        def __init__(self, term):
            self.term = term

        def exit(self, E_, nf, rets):
            for i, (st, v) in enumerate(rets):
                rets[i] = (st, E_.reg(mk_int(0, 1, 0, self.term)))
    E.hooks[ain['id']] = Summ(AIN)
    E.hooks[dfin['id']] = Summ(DFIN)
    rets = runner.run_entry(E, is_in)
    rep.absorb_engine(E, rule='F-no-panic')
    rep.floor('aircraft_in call states', len(seen.get('ain', [])), 9)
    rep.floor('df_in call states', len(seen.get('dfin', [])), 10)
    cov_a, cov_d = set(), set()
    for vs, p, sp in seen.get('ain', []):
        site = '%s:%s' % (is_in['file'], sp)
        if vs is None or len(vs) != 1:
            rep.fail('F1-arm-agreement', 'is_in#aircraft_in#arm-unknown', site, 'cannot tell which DF variant reaches this aircraft_in call (%s)' % vs)
            continue
        vi = vs[0]
        ids = idmap.get(vi, [])
        if not any(i in ADDR_DF for i in ids):
            continue
        cov_a.add(vi)
        w = want.get(vi)
        ws = sorted(w['src'], key=str) if w else []
        names = shapes.resolve_path(prog, tm_r['id'], p)[1] if p else None
        wn = shapes.resolve_path(prog, tm_r['id'], ws[0])[1] if ws and ws[0] else None
        rep.check(w is not None and len(ws) == 1 and p is not None and ws[0] == p, 'F1-arm-agreement', 'is_in#aircraft_in#%s' % dft['variants'][vi]['name'], site,
                  'DF %s: the filter looks at %s but the record shows icao24 from %s' % (ids, '.'.join(names) if names else p, '.'.join(wn) if wn else ws),
                  sample={'df': ids, 'filter_field': '.'.join(names) if names else None, 'icao24_field': '.'.join(wn) if wn else None})
    for vs, lit, sp, ainv in seen.get('dfin', []):
        site = '%s:%s' % (is_in['file'], sp)
        if vs is None or len(vs) != 1:
            rep.fail('F1-arm-agreement', 'is_in#df_in#arm-unknown', site, 'cannot tell which DF variant reaches this df_in call (%s)' % vs)
            continue
        vi = vs[0]
        ids = idmap.get(vi, [])
        if not any(i in ADDR_DF for i in ids):
            continue
        cov_d.add(vi)
        w = want.get(vi)
        rep.check(w is not None and w['df'] == {lit}, 'F1-arm-agreement', 'is_in#df_in#%s' % dft['variants'][vi]['name'], site,
                  'DF %s: the filter compares with %r but the record shows df = %s' % (ids, lit, sorted(w['df'], key=str) if w else None),
                  sample={'df': ids, 'filter_label': lit, 'record_df': sorted(w['df'], key=str) if w else None})
        rep.check(ainv is not None and ainv[0] == 1, 'F2-conjunction', 'is_in#df_in-after-aircraft_in#%s' % dft['variants'][vi]['name'], site,
                  'df_in decides the result in a state where aircraft_in is not known to be true')
    need = set(vi for vi, ids in idmap.items() if any(i in ADDR_DF for i in ids))
    rep.check(cov_a == need and cov_d == need, 'F1-arm-agreement', 'is_in#all-address-formats', is_in['file'],
              'arms seen: aircraft_in %s, df_in %s; address formats %s' % (sorted(cov_a), sorted(cov_d), sorted(need)))
    # return states: false when undecoded or aircraft_in false, else df_in
    for st, v in rets:
        r = E.scalar(st, v)
        vs = variants_of_msg(E, st)
        a = E.ival(st, AIN)
        site = '%s:%s' % (is_in['file'], is_in['line'])
        if r[0] != 'I':
            rep.fail('F2-conjunction', 'is_in#return-shape', site, 'is_in returns a non-boolean abstract value')
            continue
        if vs == []:
            rep.check(r[1] == r[2] == 0, 'F2-undecoded-never-kept', 'is_in#undecoded', site, 'a record that failed to decode can be kept (%s)' % A.show_val(r),
                      sample={'message': None, 'is_in': A.show_val(r)})
        elif r[1] == r[2] == 0:
            ok = a is not None and a[1] == 0
            rep.check(ok or vs is None, 'F2-conjunction', 'is_in#false-only-when-aircraft_in-false', site,
                      'is_in returns false in a state where aircraft_in is not known to be false (variants %s)' % vs, nontrivial=True)
        elif vs is not None and not any(i in ADDR_DF for v_ in vs for i in idmap.get(v_, [])):
            continue        # formats without an aircraft address (DF19, DF24+) are outside the property
        else:
            rep.check(r[4] == DFIN and a is not None and a[0] == 1, 'F2-conjunction', 'is_in#true-needs-both', site,
                      'is_in returns %s which is not df_in() under aircraft_in() = true' % A.show_val(r),
                      sample={'is_in': 'df_in(..) on paths with aircraft_in(..) = true'})
    # ---- F2 for the two predicates
    for fn, optfield in ((ain, 'aircraft_filter'), (dfin, 'df_filter')):
        E2 = runner.make_engine(prog, K=16)
        E2.gc_roots.add(('o', ('p', 'arg1')))
        CONT, EMPTY = T('o', ('p', 'contains')), T('o', ('p', 'is_empty'))
        marks = {}

        def hook2(E_, frame, b, t, sts, c, marks=marks):
            pass
        import models
        orig_find = models.M.find

        def find(c, orig_find=orig_find):
            if c.get('item') == 'contains' and 'slice' in (c.get('did') or '') or (c.get('item') == 'contains' and (c.get('rself') or '').startswith(('[', 'std::vec'))):
                return lambda E_, frame, b, t, sts, c_, quiet: _ret_bool(E_, frame, t, sts, CONT)
            if c.get('item') == 'is_empty' and (c.get('rself') or '').startswith(('[', 'std::vec', 'alloc::vec')):
                return lambda E_, frame, b, t, sts, c_, quiet: _ret_bool(E_, frame, t, sts, EMPTY)
            return orig_find(c)
        models.M.find = find
        try:
            rets2 = runner.run_entry(E2, fn)
        finally:
            models.M.find = orig_find
        rep.absorb_engine(E2, rule='F-no-panic')
        site = '%s:%s' % (fn['file'], fn['line'])
        fcell = ('o', ('p', 'arg1'))
        seen_cases = set()
        for st, v in rets2:
            r = E2.scalar(st, v)
            fl = st.cells.get(fcell)
            opt = None
            if fl is not None:
                fl = E2.expand(fl)
                ft = util.adt_type(prog, 'filters::Filters')
                fi = next(i for i, f in enumerate(ft['variants'][0]['fields']) if f['name'] == optfield)
                o = st.resolve(E2.expand(fl[1][fi])) if fl[0] == 'A' else None
                opt = sorted(i for i, _ in o[2]) if o not in (None, A.BOT) and o[0] == 'E' else None
            c = E2.ival(st, CONT)
            if opt == [0]:
                ok = r[0] == 'I' and r[1] == r[2] == 1
                case = 'absent'
            elif opt == [1] and c is not None and c[0] == 1:
                ok = r[0] == 'I' and r[1] == r[2] == 1
                case = 'contains'
            elif opt == [1] and c is not None and c[1] == 0:
                ok = r[0] == 'I' and r[4] == EMPTY
                case = 'not-contained'
            else:
                ok = False
                case = 'unknown(opt=%s, contains=%s)' % (opt, c)
            seen_cases.add(case)
            rep.check(ok, 'F2-predicate', '%s#%s' % (fn['name'], case), site,
                      '%s returns %s in case %s; expected absent -> true, contains -> true, otherwise is_empty()' % (fn['name'], A.show_val(r) if r[0] == 'I' else r[0], case),
                      sample={'fn': fn['name'], 'case': case, 'result': 'true' if case != 'not-contained' else 'is_empty()'})
        rep.check(seen_cases >= {'absent', 'contains', 'not-contained'}, 'F2-predicate', '%s#cases' % fn['name'], site, 'return cases seen: %s' % sorted(seen_cases))


def _ret_bool(E, frame, t, sts, term):
    out = []
    for st in sts:
        E.write_dest(st, frame, t, E.reg(mk_int(0, 1, 0, term)))
        out.append(st)
    return out
