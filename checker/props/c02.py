"""C02 - CRC acceptance and AP recovery (clause-limited, see DESIGN.md §7).

T1  CRC_TABLE[i] = remainder of i*x^24 by the Mode S generator 0x1FFF409, all 256 entries; the
    table is GF(2)-linear (T[a^b] = T[a]^T[b]).
A1  in the Message reader: every state that goes on to decode the DF either excludes DF id 17 or has
    checksum = 0; every state that takes the CRC error has id = 17 and checksum >= 1.
A2  modes_checksum is applied to the whole frame (all bit_len/8 bytes, in order, bit_len = 56 | 112);
    its result is the value stored as Message.crc and as the IcaoParity field of every
    address/parity format (DF 0, 4, 5, 16, 20, 21).
A3  the index obligations inside modes_checksum.
A4  no error exit of the DF reader is reachable with a DF id of an address/parity format when the
    frame is complete (every payload of DF 0, 4, 5, 16, 20, 21 yields its address).
A5  modes_checksum(frame) = remainder of frame(x) by the generator, for every 56- and 112-bit frame: the
    symbolic expression of the result over the 7 / 14 frame bytes is built only from GF(2)-linear
    operations (xor, shifts, constant masks, lookups in the table shown linear by T1), hence is a linear map
    of the frame bits; it agrees with polynomial division on the zero frame and on all 56 / 112 unit
    vectors, hence everywhere.
E1  error detection, decided on the linear map A5 extracted (not on a constant of the checker): the 112
    syndromes L(unit_k) are non-zero, pairwise different, and linearly independent inside every window of 24
    consecutive bits - so no 1-bit, 2-bit or <= 24-bit burst corruption of a frame has checksum 0, and by A1
    none of a valid DF17 frame is accepted as DF17.
"""
import absint as A
import runner
from absint import T, mk_int
from props import util

POLY = 0xFFF409
AP_FORMATS = (0, 4, 5, 16, 20, 21)
MARK = T('o', ('p', 'CRC-of-whole-frame'))


def crc_table_entry(i):
    c = i << 16
    for _ in range(8):
        c = ((c << 1) ^ POLY) if c & 0x800000 else (c << 1)
        c &= 0xFFFFFF
    return c


def poly_rem(bits_value, nbits):
    """remainder of the nbits-bit message polynomial by x^24 + ... (0x1FFF409), plain long division"""
    g = 0x1FFF409
    v = bits_value
    for k in range(nbits - 1, 23, -1):
        if v >> k & 1:
            v ^= g << (k - 24)
    return v & 0xFFFFFF


def a5_linear(prog, rep, chk):
    import terms
    old = A.TERM_LIMIT
    A.TERM_LIMIT = 10 ** 6
    try:
        for n in (7, 14):
            E = runner.make_engine(prog, K=8)
            atoms = [T('o', ('frame-byte', i)) for i in range(n)]
            items = tuple(E.reg(mk_int(0, 255, 0, a)) for a in atoms)
            cell = ('o', ('p', 'frame'))

            def pre(E_, st, fr, items=items, n=n):
                st.cells[cell] = ('S', A.const_int(n), mk_int(0, 255), items)
            rets = runner.run_entry(E, chk, [('R', cell, (), False), A.const_int(8 * n)], pre=pre, quiet=True)
            key = 'modes_checksum#%d-bit' % (8 * n)
            oks = []
            st_ok = None
            for st, v in rets:
                r = st.resolve(E.expand(v))
                if r != A.BOT and r[0] == 'E':
                    for vi, fs in r[2]:
                        if vi == 0:
                            oks.append(E.scalar(st, fs[0]))
                            st_ok = st
                        else:
                            oks.append(None)
            if len(oks) != 1 or oks[0] is None or oks[0][0] != 'I' or oks[0][4] is None:
                rep.fail('A5-polynomial-remainder', key + '#expression', chk['file'],
                         'the checksum of a complete %d-bit frame is not a single symbolic expression of the frame bytes (%d return states)' % (8 * n, len(oks)))
                continue
            t = oks[0][4]
            # 1. linear structure
            seen = {}
            bad = []

            def lin(x, depth=0):
                if x in seen:
                    return
                seen[x] = True
                op = x[0]
                if x in atoms:
                    return
                if op == 'c':
                    return
                if op == 'BitXor':
                    for y in x[1:]:
                        if y[0] == 'c' and y[1] != 0:
                            bad.append('xor with the constant %#x' % y[1])
                        lin(y, depth + 1)
                elif op in ('Shl', 'Shr') and x[2][0] == 'c':
                    lin(x[1], depth + 1)
                elif op == 'BitOr':
                    # an OR of operands that have no bit in common is an XOR
                    za, zb = E.ival(st_ok, x[1]), E.ival(st_ok, x[2])
                    disjoint = za is not None and zb is not None and za[0] >= 0 and zb[0] >= 0 and ((~za[2]) & (~zb[2]) & 0xFFFFFFFF) == 0
                    if not disjoint:
                        bad.append('or of operands that may share bits')
                    lin(x[1], depth + 1)
                    lin(x[2], depth + 1)
                elif op == 'BitAnd' and (x[2][0] == 'c' or x[1][0] == 'c'):
                    lin(x[1] if x[2][0] == 'c' else x[2], depth + 1)
                elif op == 'tbl' and x[1][0] == 'c':
                    tab = E.tables.get(x[1][1])
                    if tab is None or len(tab) != 256 or not all(tab[i] == _xor(tab[1 << k] for k in range(8) if i >> k & 1) for i in range(256)):
                        bad.append('lookup in a table that is not GF(2)-linear')
                    lin(x[2], depth + 1)
                elif op == 'trunc':
                    lin(x[1], depth + 1)
                else:
                    bad.append('operator %s' % op)
            import sys
            sys.setrecursionlimit(max(sys.getrecursionlimit(), 50000))
            lin(t)
            rep.check(not bad, 'A5-polynomial-remainder', key + '#linear-form', chk['file'],
                      'the checksum expression is not built from GF(2)-linear operations only: %s' % sorted(set(bad))[:4],
                      sample={'frame bits': 8 * n, 'distinct sub-expressions': len(seen)})
            if bad:
                continue
            # 2. agreement with polynomial division on a basis
            tables = dict(E.tables)
            wrong = None
            syn = {}
            for k in [None] + list(range(8 * n)):
                val = 0 if k is None else 1 << k
                env = {atoms[i]: (val >> (8 * (n - 1 - i))) & 0xFF for i in range(n)}
                env['__tables__'] = tables
                try:
                    got = terms.point_eval(t, env) & 0xFFFFFFFF
                except terms.NotNormal as e:
                    wrong = 'expression not evaluable: %s' % e
                    break
                want = poly_rem(val, 8 * n)
                if k is not None:
                    syn[8 * n - 1 - k] = got
                if got != want and wrong is None:
                    wrong = 'frame with %s: checksum expression gives %#08x, polynomial division %#08x' % ('no bit set' if k is None else 'only bit %d set' % (8 * n - 1 - k), got, want)
            rep.check(wrong is None, 'A5-polynomial-remainder', key + '#basis', chk['file'], wrong or '',
                      sample={'frame bits': 8 * n, 'basis vectors compared': 8 * n + 1})
            if n == 14 and len(syn) == 112:
                e1_error_detection(rep, chk, syn)
    finally:
        A.TERM_LIMIT = old


def _rank(vs):
    basis = {}
    r = 0
    for v in vs:
        while v:
            h = v.bit_length() - 1
            if h in basis:
                v ^= basis[h]
            else:
                basis[h] = v
                r += 1
                break
    return r


def e1_error_detection(rep, chk, syn):
    """E1: the checksum of a 112-bit frame is the GF(2)-linear map extracted by A5, so the frame valid+e is
    accepted as DF17 (A1: checksum 0) iff L(e) = 0.  Decided on the syndromes s_k = L(unit_k) of the extracted
    expression: every s_k is non-zero (1-bit errors), the s_k are pairwise different (2-bit errors), and the
    syndromes of every 24 consecutive bit positions are linearly independent (every burst of up to 24 bits)."""
    site = chk['file']
    zero = [k for k in range(112) if syn[k] == 0]
    rep.check(not zero, 'E1-error-detection', 'single-bit#all-112-syndromes-nonzero', site,
              'flipping frame bit %s leaves the checksum unchanged: a corrupted DF17 frame is accepted' % zero[:4],
              sample={'syndromes': 112, 'zero': len(zero)})
    seen = {}
    dup = None
    for k in range(112):
        if syn[k] in seen and dup is None:
            dup = (seen[syn[k]], k)
        seen.setdefault(syn[k], k)
    rep.check(dup is None, 'E1-error-detection', 'double-bit#6216-pairs-distinct-syndromes', site,
              'flipping frame bits %s and %s together leaves the checksum unchanged' % (dup or (None, None)),
              sample={'pairs': 112 * 111 // 2, 'distinct syndromes': len(seen)})
    badw = None
    for a in range(0, 112 - 24 + 1):
        if _rank([syn[k] for k in range(a, a + 24)]) != 24:
            badw = a
            break
    rep.check(badw is None, 'E1-error-detection', 'burst#89-windows-of-24-bits-independent', site,
              'the syndromes of frame bits %s..%s are linearly dependent: some burst inside that window leaves the checksum unchanged' % (badw, (badw or 0) + 23),
              sample={'windows': 89, 'rank of each': 24})


def run(prog, rep, tier):
    rep.explanation = ('Table rule: the CRC constant array is read from the compiled program and compared entry by entry with a generator '
                       'written from the polynomial. Path rules: abstract interpretation of the Message reader with the DF id expressed as '
                       'a term of the first frame byte; the states at the DF dispatch, at the CRC error and at the checksum call are inspected.')
    rep.trusted = ['rustc MIR + constant evaluation', 'checker/absint.py', 'deku read contracts (checker/models.py)']
    chk = util.find_fn(prog, 'decode::crc::modes_checksum', crate='rs1090')
    msg_try = util.find_impl_fn(prog, 'decode::Message', 'std::convert::TryFrom<&[u8]>', 'try_from')
    rd = next((b for b in prog.bodies.values() if b['kind'] == 'fn' and b['item'] == 'from_reader_with_ctx'
               and b.get('impl') and b['impl'].get('self') == 'decode::Message'), None)
    for nm, b in (('modes_checksum', chk), ('Message::try_from', msg_try), ('Message reader', rd)):
        if b is None:
            rep.missing(nm)
    if chk is None or msg_try is None or rd is None:
        return
    E = runner.make_engine(prog, K=8)
    # ---- T1
    table = None
    for bb in chk['blocks']:
        for s in bb['s']:
            if s['k'] == 'assign' and s['rv']['k'] == 'use' and s['rv']['op']['k'] == 'const':
                ty = prog.types[s['rv']['op']['ty']]
                tt = ty
                if tt['k'] == 'ref':
                    tt = prog.types[tt['to']]
                if tt['k'] == 'array' and tt.get('len') == 256:
                    v = E.const_val(None, s['rv']['op'])
                    if v[0] == 'Rk':
                        v = v[2]
                    if v[0] == 'S' and v[3] is not None and all(A.is_const(x) for x in v[3]):
                        table = [x[1] for x in v[3]]
    if table is None:
        rep.missing('CRC_TABLE constant in modes_checksum')
    else:
        site = '%s (CRC_TABLE)' % chk['file']
        for i in range(256):
            rep.check(table[i] == crc_table_entry(i), 'T1-crc-table', 'CRC_TABLE[%d]' % i, site,
                      'CRC_TABLE[%d] = %#08x, generator gives %#08x' % (i, table[i], crc_table_entry(i)),
                      nontrivial=i > 0, sample={'index': i, 'value': '%#08x' % table[i]} if i in (1, 255) else None)
        lin = all(table[i] == _xor(table[1 << k] for k in range(8) if i >> k & 1) for i in range(256))
        rep.check(lin, 'T1-crc-table', 'CRC_TABLE#linear', site, 'the table is not GF(2)-linear')
    # ---- A1 / A2
    # the ADS-B payload (DF17/18) is not an address/parity format: its reader is not needed here
    E.skip_bodies = set(b['name'] for b in prog.bodies.values() if b['kind'] == 'fn' and b['item'] == 'from_reader_with_ctx'
                        and b.get('impl') and b['impl'].get('self') in ('decode::adsb::ME',))
    rep.floor('payload readers skipped (not needed for this property)', len(E.skip_bodies), 1)
    dfr = next((b for b in prog.bodies.values() if b['kind'] == 'fn' and b['item'] == 'from_reader_with_ctx'
                and b.get('impl') and b['impl'].get('self') == 'decode::DF'), None)
    err_exits = []
    seen = {'checksum_calls': [], 'dispatch': [], 'err': []}
    import models

    def first_id_term(E_, st, reader_val):
        lv, rdv = models._reader_fields(E_, st, reader_val, None)
        if rdv is None:
            return None
        bt = models._stream_item_term(E_, st, rdv[1][0], 0)
        return T('Shr', bt, T('c', 3)) if bt is not None else None

    def call_hook(E_, frame, b, t, sts, c):
        if dfr is not None and frame.body['id'] == dfr['id'] and c.get('item') == 'from_residual':
            # an error exit of the DF reader: which DF ids can take it?
            idl = frame.info.dbgname
            loc = next((l for l, n in idl.items() if n == '__deku_variant_id'), None)
            for st in sts:
                iv = E_.scalar(st, st.cells.get((frame.depth, loc), ('T', None, None))) if loc is not None else None
                err_exits.append((iv, t.get('sp'), b))
            return
        if frame.body['id'] != rd['id']:
            return
        did = c.get('rdid') or ''
        if did == chk['id']:
            for st in sts:
                v, _ = models.seq_of(E_, st, E_.operand(st, frame, t['args'][0]))
                bl = E_.scalar(st, E_.operand(st, frame, t['args'][1]))
                seen['checksum_calls'].append((st.resolve(v[1]) if v[0] == 'S' else None, v[3] if v[0] == 'S' else None, bl, t.get('sp')))
        elif c.get('item') == 'from_reader_with_ctx' and (c.get('rself') or '') == 'decode::DF':
            for st in sts:
                idt = first_id_term(E_, st, E_.operand(st, frame, t['args'][0]))
                crc = E_.scalar(st, E_.operand(st, frame, t['args'][1]))
                iv = E_.ival(st, idt) if idt is not None else None
                ne17 = idt is not None and any(f[0] == 'Ne' and f[1] == idt and f[2] == ('c', 17) for f in st.facts)
                seen['dispatch'].append((idt, iv, ne17, crc, t.get('sp')))

    def stmt_hook(E_, st, frame, b, idx, stmt, v):
        if frame.body['id'] != rd['id'] or stmt['rv']['k'] != 'agg' or stmt['rv']['ak']['k'] != 'adt':
            return
        ty = prog.types[stmt['rv']['ak']['ty']]
        if ty['name'] == 'deku::DekuError' and ty['variants'][stmt['rv']['ak']['variant']]['name'] == 'Assertion':
            # the df byte term of this state: any term Shr(bits(_,0,8),3) refined in this state
            cand = [(tm, r) for tm, r in st.rf.items() if tm[0] == 'Shr' and tm[1][0] == 'bits' and tm[1][2] == 0 and tm[2] == ('c', 3)]
            crcs = [(tm, r) for tm, r in st.rf.items() if tm == MARK]
            seen['err'].append((cand, crcs, stmt.get('sp')))

    class CrcHook:
        def exit(self, E_, nf, rets):
            for i, (st, v) in enumerate(rets):
                v = E_.expand(v)
                if v[0] == 'E':
                    out = []
                    for vi, fs in v[2]:
                        if vi == 0 and fs and fs[0][0] == 'I':
                            x = fs[0]
                            fs = (E_.reg(mk_int(max(x[1], 0), min(x[2], 0xFFFFFFFF), 0, MARK)),) + tuple(fs[1:])
                        out.append((vi, fs))
                    rets[i] = (st, ('E', v[1], tuple(out)))
    E.hooks[chk['id']] = CrcHook()
    E.call_hook = call_hook
    E.stmt_hook = stmt_hook
    if dfr is not None:
        loc = None
        for nme, p_ in dfr['dbg']:
            if nme == '__deku_variant_id' and not p_['p']:
                loc = p_['l']
        # keep the id local alive in every frame depth the DF reader may run at
        for d in range(0, 8):
            E.gc_roots.add((d, loc))
    rets = runner.run_entry(E, msg_try)
    a5_linear(prog, rep, chk)
    # A4: a complete frame of an address/parity format is never rejected
    if dfr is None:
        rep.missing('DF reader')
    rep.floor('error exits of the DF reader examined', len(err_exits), 4)
    bad = {}
    for iv, sp, b in err_exits:
        if iv is None or iv[0] != 'I':
            bad.setdefault(sp, set()).add('?')
            continue
        for i in AP_FORMATS:
            if iv[1] <= i <= iv[2]:
                bad.setdefault(sp, set()).add(i)
    for sp, ids in sorted(bad.items(), key=str):
        rep.fail('A4-every-payload-accepted', 'DF-reader#error-exit#ids=%s' % ','.join(map(str, sorted(ids, key=str))), '%s:%s' % (dfr['file'], sp),
                 'a field reader can reject a complete DF %s frame (error exit of the DF reader reachable with these ids): the address of such a reply is never reported' % sorted(ids, key=str))
    if not bad:
        rep.ok('A4-every-payload-accepted', 'DF-reader#no-error-exit-for-AP-formats', True,
               {'error_exits_examined': len(err_exits), 'reachable_with_ids_0_4_5_16_20_21': 0})
    n = rep.absorb_engine(E, rule='A3-checksum-indexing', keyfilter=lambda o: o['fn'] == chk['name'])
    rep.floor('obligations inside modes_checksum', n, 6)
    site_rd = '%s:%s' % (rd['file'], rd['line'])
    # A2: checksum over the whole frame
    rep.floor('modes_checksum call states', len(seen['checksum_calls']), 2)
    lens = set()
    for ln, items, bl, sp in seen['checksum_calls']:
        site = '%s:%s' % (rd['file'], sp)
        ok = ln is not None and ln[1] == ln[2] and bl[0] == 'I' and bl[1] == bl[2] == 8 * ln[1] and ln[1] in (7, 14)
        rep.check(ok, 'A2-whole-frame', 'modes_checksum#len=%s' % (ln[1] if ln else '?'), site,
                  'modes_checksum called with %s bytes and bit length %s (expected 7/56 or 14/112)' % (ln and ln[1:3], bl[1:3]))
        if ok:
            lens.add(ln[1])
            good = items is not None and len(items) == ln[1] and all(
                it[0] == 'I' and it[4] is not None and it[4][0] == 'bits' and it[4][2] == 8 * i and it[4][3] == 8 for i, it in enumerate(items))
            same_stream = good and len(set(it[4][1] for it in items)) == 1
            rep.check(good and same_stream, 'A2-whole-frame', 'modes_checksum#bytes-in-order#len=%d' % ln[1], site,
                      'the buffer handed to modes_checksum is not bytes 0..%d of the input in order' % (ln[1] - 1),
                      sample={'checksum_over_bytes': ln[1], 'terms': [A.show_term(it[4]) for it in items][:3] + ['...']} if good else None)
    rep.check(lens == {7, 14}, 'A2-whole-frame', 'modes_checksum#both-lengths', site_rd, 'checksum call states cover lengths %s, expected {7, 14}' % sorted(lens))
    # A1
    rep.floor('DF dispatch states', len(seen['dispatch']), 2)
    for idt, iv, ne17, crc, sp in seen['dispatch']:
        site = '%s:%s' % (rd['file'], sp)
        excl = idt is not None and iv is not None and (iv[1] < 17 or iv[0] > 17 or ne17)
        zero = crc[0] == 'I' and crc[1] == crc[2] == 0
        from_mark = crc[0] == 'I' and (crc[4] == MARK or zero)
        rep.check(idt is not None and (excl or zero), 'A1-df17-iff-zero', 'dispatch#df17-needs-zero-checksum', site,
                  'a state reaches DF decoding with id range %s (17 not excluded) and checksum %s' % (iv and iv[:2], A.show_val(crc)),
                  sample={'df_id_range': list(iv[:2]) if iv else None, 'excludes_17': bool(excl), 'checksum': A.show_val(crc)})
        rep.check(from_mark, 'A2-context-is-checksum', 'dispatch#ctx', site, 'the context handed to the DF reader is not the checksum of the frame: %s' % A.show_val(crc))
    rep.floor('CRC error states', len(seen['err']), 1)
    for cand, crcs, sp in seen['err']:
        site = '%s:%s' % (rd['file'], sp)
        ok_id = any(r[0] == r[1] == 17 for _, r in cand)
        ok_crc = any(r[0] >= 1 for _, r in crcs)
        rep.check(ok_id and ok_crc, 'A1-df17-iff-zero', 'crc-error#only-df17-nonzero', site,
                  'the CRC error is raised in a state with id %s and checksum %s (expected id = 17, checksum >= 1)' % ([r[:2] for _, r in cand], [r[:2] for _, r in crcs]),
                  sample={'error_state_id': [r[:2] for _, r in cand], 'checksum': [r[:2] for _, r in crcs]})
    # A2: stored values
    idmap = util.deku_variant_ids(prog, 'decode::DF')
    dft = util.adt_type(prog, 'decode::DF')
    apfields = {}
    for vi, vv in enumerate(dft['variants']):
        for fi, f in enumerate(vv['fields']):
            if 'ty' in f and prog.types[f['ty']]['k'] == 'adt' and prog.types[f['ty']]['name'] == 'decode::IcaoParity':
                apfields.setdefault(vi, []).append(fi)
    for vi, ids in sorted(idmap.items()):
        need = any(i in AP_FORMATS for i in ids)
        rep.check((vi in apfields) == need, 'A2-ap-field', 'DF-variant-%s#has-parity-field' % dft['variants'][vi]['name'], site_rd,
                  'variant %s (ids %s): address/parity field present=%s, expected=%s' % (dft['variants'][vi]['name'], ids, vi in apfields, need))
    covered = set()
    oks = 0
    for st, v in rets:
        r = st.resolve(E.expand(v))
        if r == A.BOT or r[0] != 'E':
            continue
        vs = dict(r[2])
        if 0 not in vs:
            continue
        oks += 1
        msg = E.expand(vs[0][0])
        if msg[0] != 'A' or len(msg[1]) != 2:
            rep.fail('A2-stored-checksum', 'try_from#ok-shape', site_rd, 'cannot read the Message value of an Ok state')
            continue
        crc = E.scalar(st, msg[1][0])
        rep.check(crc[0] == 'I' and crc[4] == MARK, 'A2-stored-checksum', 'Message.crc', site_rd,
                  'Message.crc is not the checksum of the frame: %s' % A.show_val(crc))
        df = st.resolve(E.expand(msg[1][1]))
        if df == A.BOT or df[0] != 'E':
            continue
        for vi, fs in df[2]:
            for fi in apfields.get(vi, []):
                ap = E.expand(fs[fi])
                inner = E.scalar(st, ap[1][0]) if ap[0] == 'A' and ap[1] else ap
                covered.add(vi)
                rep.check(inner[0] == 'I' and inner[4] == MARK, 'A2-stored-checksum', 'DF-variant-%s#ap' % dft['variants'][vi]['name'], site_rd,
                          'the address/parity field of %s is %s, not the checksum of the frame' % (dft['variants'][vi]['name'], A.show_val(inner) if inner[0] == 'I' else inner[0]),
                          sample={'variant': dft['variants'][vi]['name'], 'ap_value': 'checksum of the whole frame'})
    rep.floor('Ok return states', oks, 2)
    rep.check(covered == set(apfields), 'A2-stored-checksum', 'ap-variants-covered', site_rd,
              'address/parity variants seen in Ok states: %s, expected %s' % (sorted(covered), sorted(apfields)))


def _xor(it):
    r = 0
    for x in it:
        r ^= x
    return r
