"""Scale table for C03 rule L4: for each decoded numeric field, the bits it is made of (relative to
the first bit its structure reads) and the value the standard assigns to each code
(ICAO Doc 9871 ed. 2 tables A-2-64..A-2-96 / B-2-*, DO-260B section 2.2.3.2 and Appendix A).
`f` returns None where the standard defines no value (status bit clear, "no information" code 0,
reserved codes): those assignments are not compared (sentinel codes are outside the property).
tol: accepted absolute difference (default: a relative 1e-9); fields the decoder reports on a coarser
grid than the register (selected altitudes rounded to 100 ft) carry that grid as tolerance, the
property's quantifier only samples them on that grid."""


def twos(v, sg, bits):
    return v - (1 << bits) * sg


def mov(v):
    """BDS 0,6 movement field (DO-260B table 2-14): lower edge of the bracket, kt"""
    if v == 0 or v > 124:
        return None
    if v == 1:
        return 0.0
    if v <= 8:
        return 0.125 * (v - 1)
    if v <= 12:
        return 1.0 + (v - 9) * 0.25
    if v <= 38:
        return 2.0 + (v - 13) * 0.5
    if v <= 93:
        return 15.0 + (v - 39) * 1.0
    if v <= 108:
        return 70.0 + (v - 94) * 2.0
    if v <= 123:
        return 100.0 + (v - 109) * 5.0
    return 175.0


def grid100(x, lsb):
    """selected altitudes are reported on the 100 ft grid: only the codes that are the nearest
    encoding of a multiple of 100 ft are compared (the property samples that grid)"""
    k = int(x / 100.0 + 0.5)
    return 100.0 * k if int(100.0 * k / lsb + 0.5) * lsb == x else None


B = 'decode::bds::'
SCALES = {
    B + 'bds60::HeadingAndSpeedReport': {
        'magnetic_heading': dict(atoms={'st': (0, 1), 'sg': (1, 1), 'v': (2, 10)}, f=lambda st, sg, v: ((twos(v, sg, 10) * 90.0 / 512.0) % 360.0) if st else None),
        'indicated_airspeed': dict(atoms={'st': (12, 1), 'v': (13, 10)}, f=lambda st, v: float(v) if st else None),
        'mach_number': dict(atoms={'st': (23, 1), 'v': (24, 10)}, f=lambda st, v: v * 2.048 / 512.0 if st else None),
        # magnitude bits all zeros / all ones are reported as 0 by the decoder (the convention of the reference
        # implementation pyModeS): not compared
        'barometric_altitude_rate': dict(atoms={'st': (34, 1), 'sg': (35, 1), 'v': (36, 9)}, f=lambda st, sg, v: twos(v, sg, 9) * 32.0 if st and v not in (0, 511) else None),
        'inertial_vertical_velocity': dict(atoms={'st': (45, 1), 'sg': (46, 1), 'v': (47, 9)}, f=lambda st, sg, v: twos(v, sg, 9) * 32.0 if st and v not in (0, 511) else None),
    },
    B + 'bds50::TrackAndTurnReport': {
        'roll_angle': dict(atoms={'st': (0, 1), 'sg': (1, 1), 'v': (2, 9)}, f=lambda st, sg, v: twos(v, sg, 9) * 45.0 / 256.0 if st else None),
        'track_angle': dict(atoms={'st': (11, 1), 'sg': (12, 1), 'v': (13, 10)}, f=lambda st, sg, v: ((twos(v, sg, 10) * 90.0 / 512.0) % 360.0) if st else None),
        'groundspeed': dict(atoms={'st': (23, 1), 'v': (24, 10)}, f=lambda st, v: v * 2.0 if st else None),
        'track_rate': dict(atoms={'st': (34, 1), 'sg': (35, 1), 'v': (36, 9)}, f=lambda st, sg, v: twos(v, sg, 9) * 8.0 / 256.0 if st else None),
        'true_airspeed': dict(atoms={'st': (45, 1), 'v': (46, 10)}, f=lambda st, v: v * 2.0 if st else None),
    },
    B + 'bds40::SelectedVerticalIntention': {
        'selected_altitude_mcp': dict(atoms={'st': (0, 1), 'v': (1, 12)}, f=lambda st, v: grid100(v * 16.0, 16.0) if st else None),
        'selected_altitude_fms': dict(atoms={'st': (13, 1), 'v': (14, 12)}, f=lambda st, v: grid100(v * 16.0, 16.0) if st else None),
        'barometric_setting': dict(atoms={'st': (26, 1), 'v': (27, 12)}, f=lambda st, v: v * 0.1 + 800.0 if st else None),
    },
    B + 'bds44::MeteorologicalRoutineAirReport': {
        'wind_speed': dict(atoms={'st': (4, 1), 'v': (5, 9)}, f=lambda st, v: float(v) if st else None),
        'wind_direction': dict(atoms={'st': (4, 1), 'v': (14, 9)}, f=lambda st, v: v * 180.0 / 256.0 if st else None),
        'temperature': dict(atoms={'sg': (23, 1), 'v': (24, 10)}, f=lambda sg, v: twos(v, sg, 10) * 0.25),
        # average static pressure: the decoder rejects every register with this status bit set ("never seen")
        'humidity': dict(atoms={'st': (49, 1), 'v': (50, 6)}, f=lambda st, v: v * 100.0 / 64.0 if st else None),
    },
    B + 'bds45::MeteorologicalHazardReport': {
        'static_temperature': dict(atoms={'st': (15, 1), 'sg': (16, 1), 'v': (17, 9)}, f=lambda st, sg, v: twos(v, sg, 9) * 0.25 if st else None),
        'static_pressure': dict(atoms={'st': (26, 1), 'v': (27, 11)}, f=lambda st, v: float(v) if st else None),
        'radio_height': dict(atoms={'st': (38, 1), 'v': (39, 12)}, f=lambda st, v: v * 16.0 if st else None),
    },
    B + 'bds62::TargetStateAndStatusInformation': {
        'selected_altitude': dict(atoms={'v': (4, 11)}, f=lambda v: grid100((v - 1) * 32.0, 32.0) if v else None),
        'barometric_setting': dict(atoms={'v': (15, 9)}, f=lambda v: (v - 1) * 0.8 + 800.0 if v else None, tol=1e-4),
        'selected_heading': dict(atoms={'st': (24, 1), 'v': (25, 9)}, f=lambda st, v: v * 180.0 / 256.0 if st else None),
    },
    B + 'bds09::AirborneVelocity': {
        'vertical_rate': dict(atoms={'sg': (31, 1), 'v': (32, 9)}, f=lambda sg, v: (-1 if sg else 1) * (v - 1) * 64.0 if v else None),
        'geo_minus_baro': dict(atoms={'sg': (43, 1), 'v': (44, 7)}, f=lambda sg, v: (-1 if sg else 1) * (v - 1) * 25.0 if v else None),
    },
    B + 'bds09::GroundSpeedDecoding': {
        'ew_vel': dict(atoms={'sg': (0, 1), 'v': (1, 10)}, f=lambda sg, v: (-1 if sg else 1) * (v - 1.0) if v else None),
        'ns_vel': dict(atoms={'sg': (11, 1), 'v': (12, 10)}, f=lambda sg, v: (-1 if sg else 1) * (v - 1.0) if v else None),
    },
    B + 'bds09::AirspeedSubsonicDecoding': {
        'heading': dict(atoms={'st': (0, 1), 'v': (1, 10)}, f=lambda st, v: v * 360.0 / 1024.0 if st else None, tol=1e-4),
        'airspeed': dict(atoms={'v': (12, 10)}, f=lambda v: v - 1.0 if v else None),
    },
    B + 'bds09::AirspeedSupersonicDecoding': {
        'heading': dict(atoms={'st': (0, 1), 'v': (1, 10)}, f=lambda st, v: v * 360.0 / 1024.0 if st else None, tol=1e-4),
        'airspeed': dict(atoms={'v': (12, 10)}, f=lambda v: 4.0 * (v - 1) if v else None),
    },
    B + 'bds06::SurfacePosition': {
        'track': dict(atoms={'st': (12, 1), 'v': (13, 7)}, f=lambda st, v: v * 360.0 / 128.0 if st else None, tol=1e-4),
        'groundspeed': dict(atoms={'v': (5, 7)}, f=lambda v: mov(v), tol=1e-9),
    },
}
