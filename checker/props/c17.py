"""C17 - terminal table navigation is total and keeps the selection in range.

V1  no panic in update(), Jet1090::{next, previous, home} for any table size (incl. 0), any event,
    with the pre-state invariant  selected = None or selected <= max(len,1)-1.
V2  the invariant is inductive: on every return state  selected = None or Some(j), j = 0 when the
    table is empty and j < len otherwise.
V3  update() is executed once per input class (search mode x key code, characters split at the
    documented keys; Tick; Error): flags / sort key / query / selection change only under the
    documented (mode, key) pairs (spec/keys.json), to the documented value.
"""
import json
import os

import absint as A
import runner
from absint import T, mk_int, const_int
from props import util

SPEC = os.path.join(os.path.dirname(os.path.dirname(os.path.dirname(os.path.abspath(__file__)))), 'spec', 'keys.json')
U63 = (1 << 63) - 1


class Pre:
    """abstract Jet1090 pre-state"""

    def __init__(self, prog, E, empty, mode=None, sel_none=False):
        jt = util.adt_type(prog, 'Jet1090')
        self.fields = [f['name'] for f in jt['variants'][0]['fields']]
        self.ftys = [f['ty'] for f in jt['variants'][0]['fields']]
        self.len_t = T('len', ('p', 'items'))
        self.sel_t = T('o', ('p', 'selected'))
        ln = const_int(0) if empty else E.reg(mk_int(1, U63, 0, self.len_t))
        if sel_none:
            sel = ('E', None, ((0, ()),))
        elif empty:
            sel = ('E', None, ((1, (const_int(0),)),))
        else:
            sel = ('E', None, ((1, (E.reg(mk_int(0, U63 - 1, 0, self.sel_t)),)),))
        vals = []
        self.init = {}
        for n, ty in zip(self.fields, self.ftys):
            if n == 'state':
                v = ('O', 'tablestate', (sel,))
            elif n == 'items':
                v = ('S', ln, ('T', prog.types[ty]['args'][0], ('p', 'items', '[]')), None)
            elif n == 'is_search_mode' and mode is not None:
                v = const_int(1 if mode else 0)
            elif n in ('should_quit', 'sort_asc', 'is_search_mode', 'width'):
                v = E.expand(('T', ty, ('p', n)))
            elif n == 'sort_key':
                v = E.expand(('T', ty, ('p', n)))
            elif n == 'search_query':
                v = ('S', E.reg(mk_int(0, U63 - 8, 0, T('len', ('p', 'query')))), mk_int(0, 255), None)
            else:
                v = ('T', ty, ('p', n))
            self.init[n] = v
            vals.append(v)
        self.value = ('A', tuple(vals))
        self.empty = empty

    def facts(self, E, st):
        if not self.empty:
            E.assume_cmp(st, 'Lt', self.sel_t, self.len_t)


def check_post(rep, E, st, jet, pre, what, site):
    """selection invariant on one return state; returns the post value of every field"""
    jet = E.expand(jet)
    if jet[0] != 'A':
        rep.fail('V2-selection-in-range', what + '#post-shape', site, 'cannot read the Jet1090 post-state')
        return None
    post = dict(zip(pre.fields, jet[1]))
    stv = post['state']
    items = post['items']
    ok = False
    detail = 'state field is not tracked'
    if stv[0] == 'O' and stv[1] == 'tablestate' and items[0] == 'S':
        sel = st.resolve(E.expand(stv[2][0]))
        ln = st.resolve(items[1])
        vs = dict(sel[2]) if sel != A.BOT and sel[0] == 'E' else None
        if vs is None:
            detail = 'selection is not an Option value'
        else:
            ok = True
            if 1 in vs:
                j = E.scalar(st, vs[1][0])
                if j[0] != 'I':
                    ok = False
                    detail = 'selected index unknown'
                elif ln[2] == 0:
                    ok = j[1] == j[2] == 0
                    detail = 'table empty but selected index in [%d, %d]' % (j[1], j[2])
                else:
                    ok = j[2] < ln[1] or (j[4] is not None and ln[4] is not None and j[1] >= 0 and E.entails_lt(st, j[4], ln[4]))
                    detail = 'selected index %s not shown to be below len %s' % (A.show_val(j), A.show_val(ln))
    rep.check(ok, 'V2-selection-in-range', what + ('#empty' if pre.empty else '#nonempty'), site, detail,
              sample={'entry': what, 'table': 'empty' if pre.empty else 'len >= 1', 'post_selected': A.show_val(E.scalar(st, dict(st.resolve(E.expand(stv[2][0]))[2]).get(1, (const_int(-1),))[0])) if ok and stv[0] == 'O' else None})
    return post


def run(prog, rep, tier):
    K = 16
    rep.explanation = ('Abstract interpretation of update() and of next/previous/home with a symbolic table length and the selection '
                       'invariant as precondition (zone facts i < len); update() is then run once per input class (mode x key) and '
                       'the post-state of every flag is compared with the documented key table.')
    rep.trusted = ['rustc MIR semantics', 'ghost model of ratatui TableState::{select, selected}; MutexGuard deref yields one guarded value',
                   'ScrollbarState::position is total (ratatui)', 'checker/absint.py zone closure']
    upd = util.find_fn(prog, 'update', crate='jet1090')
    fns = {n: util.find_fn(prog, 'Jet1090::' + n, crate='jet1090') for n in ('next', 'previous', 'home')}
    if upd is None:
        rep.missing('jet1090 update()')
    for n, b in fns.items():
        if b is None:
            rep.missing('Jet1090::' + n)
    if upd is None or any(b is None for b in fns.values()):
        return
    with open(SPEC) as fh:
        spec = json.load(fh)
    jcell = ('o', ('p', 'jet'))
    # ---- V1 / V2 on the three selection functions
    for n, b in sorted(fns.items()):
        site = '%s:%s' % (b['file'], b['line'])
        nobl = 0
        for empty in (True, False):
            for sel_none in (False, True):
                E = runner.make_engine(prog, K=K)
                pre = Pre(prog, E, empty, sel_none=sel_none)
                E.gc_roots.add(jcell)

                def prefn(E_, st, fr, pre=pre):
                    st.cells[jcell] = pre.value
                    pre.facts(E_, st)
                rets = runner.run_entry(E, b, [('R', jcell, (), True)], pre=prefn)
                nobl += rep.absorb_engine(E, rule='V1-no-panic')
                for st, _ in rets:
                    check_post(rep, E, st, st.cells.get(jcell), pre, 'Jet1090::' + n, site)
                if not rets and not any(not o['ok'] for o in E.obligations().values()):
                    rep.fail('V1-no-panic', 'Jet1090::%s#returns' % n, site, 'no return state')
        rep.floor('obligations in Jet1090::' + n, nobl, 1 if n == 'home' else 4)
    # ---- V3 + V1/V2 on update, per input class
    kc = util.adt_type(prog, 'crossterm::event::KeyCode')
    ev = util.adt_type(prog, 'tui::Event')
    ke = util.adt_type(prog, 'crossterm::event::KeyEvent')
    if kc is None or ev is None or ke is None or any('ty' not in f for f in ke['variants'][0]['fields']):
        rep.missing('crossterm KeyCode / KeyEvent / tui::Event types')
        return
    kvars = {v['name']: i for i, v in enumerate(kc['variants'])}
    evars = {v['name']: i for i, v in enumerate(ev['variants'])}
    doc_chars = sorted(set(ord(r['key'][5:-1]) for r in spec['rules'] if r['key'].startswith('Char(') and len(r['key']) == 7))
    classes = []        # (label, event value builder)
    for name, vi in sorted(kvars.items(), key=lambda x: x[1]):
        if name == 'Char':
            for c in doc_chars:
                classes.append(('Char(%s)' % chr(c), ('key', vi, (const_int(c),))))
            lo = 0
            for c in doc_chars + [0x110000]:
                if lo <= c - 1:
                    classes.append(('Char(other:%#x..%#x)' % (lo, c - 1), ('key', vi, ('range', lo, c - 1))))
                lo = c + 1
        else:
            classes.append((name, ('key', vi, None)))
    classes.append(('Tick', ('tick',)))
    classes.append(('Error', ('error',)))
    rep.floor('input classes of update()', len(classes), 40)
    site = '%s:%s' % (upd['file'], upd['line'])
    nobl = 0
    ncls = 0
    for mode in (False, True):
        for label, evb in classes:
            for empty in (True, False):
                E = runner.make_engine(prog, K=K)
                pre = Pre(prog, E, empty, mode=mode)
                E.gc_roots.add(jcell)
                if evb[0] == 'key':
                    kfields = []
                    kv = kc['variants'][evb[1]]
                    if evb[2] is None:
                        pay = tuple(('T', f['ty'], ('p', 'keypayload', i)) for i, f in enumerate(kv['fields']))
                    elif evb[2][0] == 'range':
                        pay = (E.reg(mk_int(evb[2][1], evb[2][2], 0, T('o', ('p', 'char')))),)
                    else:
                        pay = evb[2]
                    code = ('E', None, ((evb[1], pay),))
                    for f in ke['variants'][0]['fields']:
                        kfields.append(code if f['name'] == 'code' else ('T', f['ty'], ('p', 'ke', f['name'])))
                    evv = ('E', None, ((evars['Key'], (('A', tuple(kfields)),)),))
                elif evb[0] == 'tick':
                    evv = ('E', None, ((evars['Tick'], (E.reg(mk_int(0, 65535, 0, T('o', ('p', 'ticksize')))),)),))
                else:
                    evv = ('E', None, ((evars['Error'], ()),))
                gcell = ('o', ('p', 'guard'))

                def prefn(E_, st, fr, pre=pre):
                    st.cells[gcell] = ('T', None, ('p', 'guardv'))
                    st.cells[('o', (('p', 'guardv'), 'guarded'))] = pre.value
                    pre.facts(E_, st)
                jc = ('o', (('p', 'guardv'), 'guarded'))
                E.gc_roots.add(jc)
                E.gc_roots.add(gcell)
                rets = runner.run_entry(E, upd, [('R', gcell, (), True), evv], pre=prefn)
                nobl += rep.absorb_engine(E, rule='V1-no-panic')
                ncls += 1
                if not rets and not any(not o['ok'] for o in E.obligations().values()):
                    rep.fail('V1-no-panic', 'update#returns#%s' % label, site, 'no return state for class %s' % label)
                for st, _ in rets:
                    post = check_post(rep, E, st, st.cells.get(jc), pre, 'update[%s,%s]' % ('search' if mode else 'normal', label), site)
                    if post is None:
                        continue
                    check_v3(rep, E, st, pre, post, mode, label, evb, spec, site)
    rep.floor('update() obligations', nobl, 20)
    rep.extra['input_classes_run'] = ncls
    v4_render(prog, rep)


def v4_render(prog, rep):
    """V4 (after seed C17-s7): the render step that follows every handled event rebuilds `items` and may re-align
    the selection (table.rs build_table).  For an arbitrary application state - any number of rows, including none -
    the integer arithmetic of build_table's own body (not of the cell renderers or of ratatui) cannot overflow or
    divide by zero: `len - 1` on an emptied table is the realistic defect here."""
    bt = util.find_fn(prog, 'table::build_table', crate='jet1090')
    if bt is None:
        rep.missing('table::build_table')
        return
    E = runner.make_engine(prog, K=8)
    runner.run_entry(E, bt)
    total = len(E.obligations())
    rep.floor('obligations evaluated below build_table', total, 100)
    n = rep.absorb_engine(E, rule='V4-render-arithmetic',
                          keyfilter=lambda o: o['fn'] == bt['name'] and o['kind'].split('(')[0] in ('Overflow', 'DivisionByZero', 'RemainderByZero'))
    rep.ok('V4-render-arithmetic', 'build_table#analysed', True, {'obligations_below_build_table': total, 'own_arithmetic_obligations': n})


def rule_for(spec, mode, label):
    key = label
    if label.startswith('Char(other'):
        key = 'Char(*)'
    for r in spec['rules']:
        if r['key'] == key and (r['mode'] == 'any' or r['mode'] == ('search' if mode else 'normal')):
            return r
    if key.startswith('Char(') and mode:
        for r in spec['rules']:
            if r['key'] == 'Char(*)' and r['mode'] == 'search':
                return r
    return {'effect': 'none'}


def check_v3(rep, E, st, pre, post, mode, label, evb, spec, site):
    r = rule_for(spec, mode, label)
    eff = r['effect']
    mname = 'search' if mode else 'normal'
    key = 'update#%s#%s' % (mname, label if not label.startswith('Char(other') else 'Char(other)')
    problems = []

    def same(n):
        return E.deep_resolve(st, E.expand(post[n])) == E.deep_resolve(st, E.expand(pre.init[n])) or post[n] == pre.init[n]

    def const_is(n, v):
        x = E.scalar(st, post[n])
        return x[0] == 'I' and x[1] == x[2] == v
    expected_change = {
        'quit': 'should_quit', 'search_on': 'is_search_mode', 'search_off': 'is_search_mode', 'search_off_clear': 'is_search_mode',
        'toggle_sort_asc': 'sort_asc', 'push': 'search_query', 'pop': 'search_query', 'tick': 'width',
    }
    changed_ok = set()
    if eff == 'quit':
        if not const_is('should_quit', 1):
            problems.append('should_quit is not set')
        changed_ok.add('should_quit')
    elif eff == 'search_on':
        if not const_is('is_search_mode', 1):
            problems.append('is_search_mode is not set')
        changed_ok.add('is_search_mode')
    elif eff in ('search_off', 'search_off_clear'):
        if not const_is('is_search_mode', 0):
            problems.append('is_search_mode is not cleared')
        changed_ok.add('is_search_mode')
        if eff == 'search_off_clear':
            q = E.expand(post['search_query'])
            ln = st.resolve(q[1]) if q[0] == 'S' else None
            if ln is None or not (ln[1] == ln[2] == 0):
                problems.append('search_query is not emptied')
            changed_ok.add('search_query')
    elif eff == 'toggle_sort_asc':
        x = E.scalar(st, post['sort_asc'])
        p0 = pre.init['sort_asc']
        if not (x[0] == 'I' and x[4] == A.mkterm('Not', p0[4])):
            problems.append('sort_asc is not negated')
        changed_ok.add('sort_asc')
    elif eff.startswith('sort:'):
        want = eff[5:]
        sk = st.resolve(E.expand(post['sort_key']))
        skt = util.adt_type(E.prog, 'SortKey')
        names = [skt['variants'][i]['name'] for i, _ in sk[2]] if sk != A.BOT and sk[0] == 'E' else None
        if names != [want]:
            problems.append('sort_key is %s, expected %s' % (names, want))
        changed_ok.add('sort_key')
    elif eff == 'push':
        q = E.expand(post['search_query'])
        q0 = pre.init['search_query']
        ln = st.resolve(q[1]) if q[0] == 'S' else None
        if ln is None or not (ln[1] >= q0[1][1] + 1):
            problems.append('search_query did not grow')
        changed_ok.add('search_query')
    elif eff == 'pop':
        changed_ok.add('search_query')
    elif eff == 'tick':
        x = E.scalar(st, post['width'])
        if not (x[0] == 'I' and x[4] == T('o', ('p', 'ticksize'))):
            problems.append('width is not the tick size')
        changed_ok.add('width')
    elif eff in ('next', 'previous', 'home'):
        changed_ok.update(('state', 'scroll_state'))
        if eff == 'home':
            sel = st.resolve(E.expand(post['state'][2][0])) if post['state'][0] == 'O' else None
            vs = dict(sel[2]) if sel and sel != A.BOT else {}
            if list(vs) != [1] or not (E.scalar(st, vs[1][0])[1:3] == (0, 0)):
                problems.append('home does not select row 0')
        else:
            if same('state'):
                problems.append('%s did not move the selection' % eff) if not pre.empty else None
    for n in pre.fields:
        if n in changed_ok:
            continue
        if not same(n):
            problems.append('%s changes under (%s, %s)' % (n, mname, label))
    rep.check(not problems, 'V3-documented-keys', key, site, '; '.join(problems) or 'ok',
              sample={'mode': mname, 'key': label, 'effect': eff} if eff != 'none' else None)
