"""C07 - every decoded message serialises to well-formed, self-consistent JSON.

Shapes are read off the MIR of every Serialize impl (checker/shapes.py) for the roots Message and
TimedMessage, one alternative per reachable combination of enum variants.
R-flat   every alternative is serialisable: what is reached through #[serde(flatten)] or through an
         internally tagged newtype variant only uses entry points FlatMapSerializer /
         TaggedSerializer accept (serde 1.0.219).
R-root   the root is one JSON object.
R-dup    no key is emitted twice in one object (after inlining flattened children).
R-tag    the `df` entry of each DF variant is the constant string of the variant's deku id.
R-key    `icao24` exists for DF 0, 4, 5, 11, 16, 17, 18, 20, 21 and is fed by the address/parity field
         (DF 0, 4, 5, 16, 20, 21) resp. the announced ICAO address (DF 11, 17, 18); both are written
         with the same 6-hex-digit lower-case template.
R-frame  TimedMessage keeps `frame` (as_hex) and flattens the message.
R-line   no workspace caller uses a pretty / multi-line JSON writer for records.
"""
import shapes
from props import util

ADDR_DF = (0, 4, 5, 11, 16, 17, 18, 20, 21)
AP_DF = (0, 4, 5, 16, 20, 21)


def run(prog, rep, tier, compose=True):
    rep.explanation = ('A may/must dataflow over the MIR of each (derived or hand-written) Serialize impl gives, per enum-variant '
                       'combination, the emitted keys with their constant tags, value types and source fields; the serde private '
                       'serializers\' acceptance tables decide serialisability.')
    rep.trusted = ['rustc MIR of the expanded serde derive', 'serde %s FlatMapSerializer / TaggedSerializer semantics transcribed in checker/shapes.py' % shapes.SERDE_VERSION,
                   'serde_json::to_string writes one line and maps non-finite floats to null']
    S = shapes.Shapes(prog)
    rep.floor('Serialize impls found', sum(len(v) for v in S.impls.values()), 70)
    lock = open('/repo/Cargo.lock').read() if True else ''
    import os
    lockp = os.path.join(os.environ.get('VERIF_REPO', '/repo'), 'Cargo.lock')
    ver = None
    txt = open(lockp).read()
    i = txt.find('name = "serde"\n')
    if i >= 0:
        ver = txt[i:i + 80].split('version = "')[1].split('"')[0]
    rep.check(ver == shapes.SERDE_VERSION, 'R-flat', 'serde-version', 'Cargo.lock', 'serde %s in Cargo.lock; the acceptance tables were transcribed from %s' % (ver, shapes.SERDE_VERSION), nontrivial=False)
    mt = util.adt_type(prog, 'decode::Message')
    tm = util.adt_type(prog, 'decode::TimedMessage')
    dft = util.adt_type(prog, 'decode::DF')
    if mt is None or tm is None or dft is None:
        rep.missing('Message / TimedMessage / DF types')
        return
    idmap = util.deku_variant_ids(prog, 'decode::DF')
    if not idmap:
        rep.missing('deku ids of DF')
        return
    skip = [b['name'] for b in prog.bodies.values() if b['kind'] == 'fn' and b['item'] == 'from_reader_with_ctx' and b.get('impl')
            and b['impl'].get('self') in ('decode::adsb::ME', 'decode::commb::DF20DataSelector', 'decode::commb::DF21DataSelector')]
    fbits = util.variant_field_bits(prog, 'decode::DF', skip)
    rep.floor('DF variants with field bit positions', len(fbits), 9)
    site_of = {}
    for name, bl in S.impls.items():
        site_of[name] = '%s:%s' % (bl[0]['file'], bl[0]['line'])
    for root, rt in (('Message', mt), ('TimedMessage', tm)):
        alts = S.shape(rt['id'])
        rep.floor('shape alternatives of ' + root, len(alts), 40)
        seen_df = set()
        for a in alts:
            via = a.get('via') or []
            label = '/'.join('%s%s' % (t.split('::')[-1], ('::' + v) if v else '') for t, v in via) or root
            site = site_of.get(via[-1][0], '-') if via else '-'
            # locate the innermost failing type for the site
            for e in a['errors']:
                parts = e.split(': ')
                tnames = [x for x in parts if x.startswith('decode::')]
                inner = tnames[-1] if tnames else None
                key_t = inner or label
                base = inner.rsplit('::', 1)[0] if inner and inner.rsplit('::', 1)[0] in site_of else inner
                rep.fail('R-flat', '%s#unserialisable#%s' % (root if root == 'TimedMessage' and False else 'shape', key_t), site_of.get(base, site),
                         'not serialisable: %s' % e)
            if not a['errors']:
                rep.ok('R-flat', '%s#%s' % (root, label), True,
                       {'root': root, 'path': label, 'keys': sorted(a['keys'])[:12]} if len(via) >= 3 and len(rep.samples) < 6 else None)
            rep.check(a['kind'] == 'object', 'R-root', '%s#object#%s' % (root, label), site, 'the root value is %s, not an object' % a['kind'], nontrivial=False)
            rep.check(not a['dups'], 'R-dup', '%s#dups#%s' % (root, label), site, 'keys emitted twice in one object: %s' % a['dups'])
            # which DF variant is this alternative?
            dv = next((v for t, v in via if t == 'decode::DF'), None)
            if dv is None:
                continue
            vi = next(i for i, v in enumerate(dft['variants']) if v['name'] == dv)
            ids = idmap.get(vi, [])
            seen_df.add(vi)
            if a['errors']:
                continue
            tag = a['keys'].get('df')
            want = str(ids[0]) if ids else None
            if not any(i in ADDR_DF for i in ids):
                continue
            rep.check(tag is not None and tag.get('const') == want and not tag.get('optional'), 'R-tag', '%s#df-tag#%s' % (root, dv), site_of.get('decode::DF', site),
                      'variant %s (deku ids %s) is written with df = %r' % (dv, ids, tag and tag.get('const')),
                      sample={'variant': dv, 'deku_ids': ids, 'df': tag and tag.get('const')} if root == 'Message' and len(via) <= 1 else None)
            if any(i in ADDR_DF for i in ids):
                k = a['keys'].get('icao24')
                ok = k is not None and not k.get('optional') and k.get('src') is not None
                fty, names = (None, [])
                if ok:
                    fty, names = shapes.resolve_path(prog, rt['id'], k['src'])
                tname = prog.types[fty]['name'] if fty is not None and prog.types[fty]['k'] == 'adt' else None
                want_t = 'decode::IcaoParity' if any(i in AP_DF for i in ids) else 'decode::ICAO'
                if ok and tname == want_t == 'decode::ICAO':
                    # the announced address: 24 bits at bit 8 of the frame
                    di = next(i for i, (var, fi) in enumerate(k['src']) if var == vi)
                    fpath = tuple(fi for var, fi in k['src'][di:])
                    got = sorted(v for kk, v in fbits.get(vi, {}).items() if tuple(x for x in kk if not isinstance(x, tuple))[:len(fpath)] == fpath)
                    rep.check(got == [(8, 24)], 'R-key', '%s#icao24-bit8#%s' % (root, dv), site_of.get('decode::DF', site),
                              'icao24 of %s is read from bits %s of the frame; the announced address is 24 bits at bit 8' % (dv, got),
                              sample={'variant': dv, 'icao24_bits': got} if root == 'Message' else None)
                rep.check(ok and tname == want_t, 'R-key', '%s#icao24#%s' % (root, label), site_of.get('decode::DF', site),
                          'icao24 of %s comes from %s (type %s); expected a %s field' % (label, '.'.join(names) or 'nothing', tname, want_t),
                          sample={'variant': dv, 'icao24_from': '.'.join(names), 'type': tname} if root == 'Message' and len(rep.samples) < 10 else None)
        rep.check(seen_df == set(range(len(dft['variants']))), 'R-tag', '%s#all-df-variants' % root, site_of.get('decode::DF', '-'),
                  'DF variants reached by the shape walk: %s of %d' % (sorted(seen_df), len(dft['variants'])))
    # nested values: every type stored under a key (and inside Option / Vec) must itself serialise to
    # a well-formed value
    work = []
    for root, rt in (('Message', mt), ('TimedMessage', tm)):
        for a in S.shape(rt['id']):
            for kname, info in a['keys'].items():
                if info.get('ty') is not None:
                    work.append((info['ty'], '%s.%s' % (root, kname)))
    done = set()
    nested = 0
    while work:
        tyid, where = work.pop()
        tyid = shapes.strip_ref(prog, tyid)
        if tyid in done:
            continue
        done.add(tyid)
        ty = prog.types[tyid]
        if ty['k'] in ('slice', 'array'):
            work.append((ty['elem'], where + '[]'))
            continue
        if ty['k'] == 'adt' and ty['name'] in ('core::option::Option', 'std::option::Option', 'alloc::vec::Vec', 'std::vec::Vec', 'alloc::boxed::Box') and ty['args']:
            work.append((ty['args'][0], where))
            continue
        if ty['k'] != 'adt':
            continue
        tname = ty['name']
        if not (tname in S.impls or tname.split('::', 1)[-1] in S.impls):
            continue
        nested += 1
        for a in S.shape(tyid):
            label = tname.split('::')[-1] + (('::' + a['variant']) if a.get('variant') else '')
            site = site_of.get(tname, '-')
            for e in a['errors']:
                rep.fail('R-flat', 'value#unserialisable#%s' % label, site, 'value under %s is not serialisable: %s' % (where, e))
            rep.check(not a['dups'], 'R-dup', 'value#dups#%s' % label, site, 'value under %s (%s) emits keys twice: %s' % (where, label, a['dups']),
                      sample={'nested_value': label, 'under': where, 'keys': sorted(a['keys'])[:8]} if nested in (3, 9) else None)
            for kname, info in a['keys'].items():
                if info.get('ty') is not None:
                    work.append((info['ty'], '%s.%s' % (label, kname)))
    rep.floor('nested value types checked', nested, 15)
    # R-frame
    alts = S.shape(tm['id'])
    for a in alts[:1]:
        k = a['keys'].get('frame')
        rep.check(k is not None and not k.get('optional'), 'R-frame', 'TimedMessage#frame', site_of.get('decode::TimedMessage', '-'), 'TimedMessage does not always write `frame`')
    ashex = [b for b in prog.bodies.values() if b['kind'] == 'fn' and b['name'].endswith('as_hex') and b['crate'] == 'rs1090']
    ok = False
    for b in ashex:
        calls = [bb['t']['callee'] for bb in b['blocks'] if bb['t'] and bb['t']['k'] == 'call' and bb['t']['callee']]
        ok = any(c.get('item') == 'encode' and (c.get('rcrate') == 'hex') for c in calls) and any(c.get('item') == 'serialize_str' for c in calls)
    rep.check(ok, 'R-frame', 'as_hex#hex-encode', ashex[0]['file'] if ashex else '-', 'as_hex does not write hex::encode(frame) as a string')
    # the whole frame is encoded: the argument of hex::encode is the `data` parameter itself (through
    # copies, re-borrows and derefs only), not a sub-slice or a value computed from it
    import dataflow
    whole = False
    why = 'no hex::encode call'
    for b in ashex:
        for bb in b['blocks']:
            t = bb['t']
            if not (t and t['k'] == 'call' and t['callee'] and t['callee'].get('item') == 'encode' and t['callee'].get('rcrate') == 'hex'):
                continue
            cur = t['args'][0]['pl']['l'] if t['args'][0]['k'] != 'const' else None
            why = 'argument is a constant'
            for _ in range(12):
                if cur is None:
                    break
                if cur == 1:
                    whole = True
                    break
                defs = [s_ for bb2 in b['blocks'] for s_ in bb2['s'] if s_['k'] == 'assign' and s_['pl']['l'] == cur and not s_['pl']['p']]
                cdefs = [bb2['t'] for bb2 in b['blocks'] if bb2['t'] and bb2['t']['k'] == 'call' and bb2['t']['dest']['l'] == cur]
                if cdefs:
                    why = 'the encoded value is the result of %s, not the frame itself' % ((cdefs[0]['callee'] or {}).get('name') or 'a call')
                    break
                if len(defs) != 1 or defs[0]['rv']['k'] not in ('use', 'ref', 'cast', 'rawptr'):
                    why = 'the encoded value is computed (%s)' % (defs[0]['rv']['k'] if defs else 'no definition')
                    break
                pls = dataflow.rvalue_places(defs[0]['rv'])
                if len(pls) != 1 or any(p_[0] != 'deref' for p_ in pls[0]['p']):
                    why = 'the encoded value is a part of the frame (projection %s)' % (pls[0]['p'] if pls else '-')
                    break
                cur = pls[0]['l']
    rep.check(whole, 'R-frame', 'as_hex#whole-frame', ashex[0]['file'] if ashex else '-', 'as_hex must encode every byte of the frame: ' + why, nontrivial=True)
    # templates of the two address writers
    tmpl = {}
    for nm in ('decode::ICAO', 'decode::IcaoParity'):
        for b in S.impls.get(nm, []):
            tmpl[nm] = util.fmt_signature(prog, b)[0]
    same = len(tmpl) == 2 and tmpl['decode::ICAO'] is not None and tmpl['decode::ICAO'] == tmpl['decode::IcaoParity']
    rep.check(same, 'R-key', 'icao24#same-template', site_of.get('decode::ICAO', '-'), 'ICAO and IcaoParity are written with different format templates: %s' % {k: v and v.hex() for k, v in tmpl.items()},
              sample={'template_hex': tmpl.get('decode::ICAO') and tmpl['decode::ICAO'].hex()})
    # the template must be {:06x}: width 6, zero padded, lower hex. The compiled template encodes the
    # flags; we compare with the one the Display impl of ICAO uses ("{:06x}" in the sources of both).
    disp = [b for b in prog.bodies.values() if b['kind'] == 'fn' and b['item'] == 'fmt' and b.get('impl') and b['impl'].get('self') == 'decode::ICAO'
            and b['impl'].get('trait') == 'std::fmt::Display']
    dt = None
    for b in disp:
        dt, uses_lower_hex = util.fmt_signature(prog, b)
        rep.check(uses_lower_hex, 'R-key', 'icao24#lower-hex', '%s:%s' % (b['file'], b['line']), 'Display for ICAO does not format with LowerHex')
    for nm in ('decode::ICAO', 'decode::IcaoParity'):
        for b in S.impls.get(nm, []):
            lh = util.fmt_signature(prog, b)[1]
            rep.check(lh, 'R-key', 'icao24#lower-hex#' + nm, '%s:%s' % (b['file'], b['line']), 'Serialize for %s does not format with LowerHex' % nm)
    rep.check(dt is not None and dt == tmpl.get('decode::ICAO'), 'R-key', 'icao24#template-matches-display', site_of.get('decode::ICAO', '-'),
              'the serialised address template differs from the one Display uses')
    # R-line
    pretty = []
    for b in prog.bodies.values():
        for bb in b['blocks']:
            t = bb['t']
            if t and t['k'] == 'call' and t['callee'] and 'serde_json' in (t['callee'].get('did') or '') and 'pretty' in (t['callee'].get('did') or ''):
                pretty.append('%s (%s:%s)' % (b['name'], b['file'], t.get('sp')))
    rep.check(not pretty, 'R-line', 'no-pretty-writer', '-', 'pretty (multi-line) JSON writer used: %s' % pretty, nontrivial=False)
    tostr = 0
    for b in prog.bodies.values():
        for bb in b['blocks']:
            t = bb['t']
            if t and t['k'] == 'call' and t['callee'] and (t['callee'].get('did') or '').startswith('serde_json::ser::to_string'):
                tostr += 1
    rep.floor('serde_json::to_string call sites', tostr, 3)
    if compose:
        composed(prog, rep, tier)


def composed(prog, rep, tier):
    """clauses of the statement that other checkers already decide, evaluated here as well (not when C03 evaluates C07)"""
    # "decoding that hex again gives the same fields": the decoder keeps nothing between two calls.  Static reachability
    # from Message::try_from over rs1090; no reached body writes or enters thread-local / interior-mutable / atomic state.
    msg_try = util.find_impl_fn(prog, 'decode::Message', 'std::convert::TryFrom<&[u8]>', 'try_from')
    if msg_try is None:
        rep.missing('<Message as TryFrom<&[u8]>>::try_from')
        return
    reach = util.static_reach(prog, [msg_try])
    rep.floor('rs1090 bodies statically reachable from Message::try_from', len(reach), 150)
    calls = util.hidden_state_calls(prog, reach)
    by = {}
    for b, nm, sp in calls:
        by.setdefault((b['name'], nm.split('<')[0]), []).append('%s:%s' % (b['file'], sp))
    for (fn, nm), sites in sorted(by.items()):
        rep.fail('R-redecode-stateless', 'state#%s#%s' % (fn, nm), sites[0],
                 '%s (reachable from Message::try_from) uses %s: the decoder keeps state between two calls, so decoding the kept hex again can give other fields than the record shows' % (fn, nm))
    rep.check(True, 'R-redecode-stateless', 'reachable-bodies-scanned', msg_try['file'], '', sample={'bodies_scanned': len(reach), 'state_uses': len(calls)}, nontrivial=False)
    # "without ... non-finite numbers": C08's finiteness rule (every float stored in a decoded value is finite, NaN-free)
    from props import c08
    c08.run(prog, util.Prefixed(rep, 'R-finite/', only=('R2',)), tier, only='R2')
