"""Helpers shared by the property checkers."""
import re
import absint as A
import runner


def find_impl_fn(prog, self_ty, trait, item, crate=None):
    out = []
    for b in prog.bodies.values():
        if b['kind'] != 'fn' or b['item'] != item:
            continue
        im = b.get('impl')
        if not im or im.get('self') != self_ty:
            continue
        if trait is not None and im.get('trait') != trait:
            continue
        if crate is not None and b['crate'] != crate:
            continue
        out.append(b)
    return out[0] if len(out) == 1 else None


def find_fn(prog, name, crate=None, kind='fn'):
    out = [b for b in prog.bodies.values() if b['kind'] == kind and b['name'] == name and (crate is None or b['crate'] == crate)]
    return out[0] if len(out) == 1 else None


def adt_type(prog, name):
    for t in prog.types:
        if t and t['k'] == 'adt' and t['name'] == name:
            return t
    return None


def has_cycle(succ, nodes):
    """is there a cycle in the sub-graph induced by `nodes`?"""
    nodes = set(nodes)
    color = {}
    for root in nodes:
        if root in color:
            continue
        stack = [(root, iter([s for s in succ[root] if s in nodes]))]
        color[root] = 1
        while stack:
            n, it = stack[-1]
            adv = False
            for s in it:
                c = color.get(s, 0)
                if c == 1:
                    return True
                if c == 0:
                    color[s] = 1
                    stack.append((s, iter([x for x in succ[s] if x in nodes])))
                    adv = True
                    break
            if not adv:
                color[n] = 2
                stack.pop()
    return False


def reachable_adts(prog, roots):
    """names of the ADTs reachable through field / generic-argument types from the root ADTs"""
    by_name = {}
    for t in prog.types:
        if t and t['k'] == 'adt':
            by_name.setdefault(t['name'], []).append(t)
    seen = set()
    out = set()
    work = []
    for r in roots:
        for t in by_name.get(r, []):
            work.append(t['id'])
    while work:
        i = work.pop()
        if i in seen or i is None:
            continue
        seen.add(i)
        t = prog.types[i]
        k = t['k']
        if k == 'adt':
            out.add(t['name'])
            for a in t.get('args', []):
                work.append(a)
            for v in t.get('variants', []):
                for f in v['fields']:
                    if 'ty' in f:
                        work.append(f['ty'])
        elif k in ('ref', 'ptr'):
            work.append(t['to'])
        elif k in ('slice', 'array'):
            work.append(t['elem'])
        elif k == 'tuple':
            work.extend(t['elems'])
    # printed self types of impls omit the crate name
    return set(n.split('::', 1)[1] if n.startswith(('rs1090::', 'jet1090::', 'decode1090::')) else n for n in out) | out


def tuple_arg_component_is_const(prog, body, bi, comp, value):
    """the call in block bi passes as first argument a tuple whose component `comp` is the
    constant `value` (looked up in the defining aggregate assignment of the same body)"""
    t = body['blocks'][bi]['t']
    if not t['args']:
        return False
    a0 = t['args'][0]
    if a0['k'] not in ('copy', 'move') or a0['pl']['p']:
        return False
    loc = a0['pl']['l']
    defs = []
    for bb in body['blocks']:
        for s in bb['s']:
            if s['k'] == 'assign' and s['pl']['l'] == loc and not s['pl']['p']:
                defs.append(s['rv'])
    if len(defs) != 1 or defs[0]['k'] != 'agg' or defs[0]['ak']['k'] != 'tuple':
        return False
    ops = defs[0]['ops']
    if comp >= len(ops):
        return False
    o = ops[comp]
    return o['k'] == 'const' and o['v'].get('int') == str(value)


_idcache = {}


def deku_variant_ids(prog, enum_name):
    """variant index -> sorted list of deku ids that select it, read off the abstract value of
    `__deku_variant_id` at the construction site of each variant in the derived reader"""
    key = (id(prog), enum_name)
    if key in _idcache:
        return _idcache[key]
    body = find_impl_fn(prog, enum_name, "deku::DekuReader<'_>", 'from_reader_with_ctx')
    if body is None:
        body = next((b for b in prog.bodies.values() if b['kind'] == 'fn' and b['item'] == 'from_reader_with_ctx'
                     and b.get('impl') and b['impl'].get('self') == enum_name), None)
    if body is None:
        return {}
    E = runner.make_engine(prog, K=64, max_depth=0)
    idloc = None
    for nme, p in body['dbg']:
        if nme == '__deku_variant_id' and not p['p']:
            idloc = p['l']
    out = {}

    def hook(E_, st, frame, b, idx, stmt, v):
        if frame.depth != 0 or stmt['rv']['k'] != 'agg':
            return
        ak = stmt['rv']['ak']
        if ak['k'] != 'adt':
            return
        ty = prog.types[ak['ty']]
        if ty['name'].split('::', 1)[-1] != enum_name and ty['name'] != enum_name:
            return
        if idloc is None:
            return
        iv = st.cells.get((0, idloc))
        if iv is None:
            return
        iv = E_.scalar(st, iv)
        if iv[0] != 'I':
            return
        vals = set(range(iv[1], iv[2] + 1)) if iv[2] - iv[1] < 4096 else set()
        if iv[4] is not None:
            for f in st.facts:
                if f[0] == 'Ne' and f[1] == iv[4] and f[2][0] == 'c':
                    vals.discard(f[2][1])
        out.setdefault(ak['variant'], set()).update(vals)
    E.stmt_hook = hook
    if idloc is not None:
        E.gc_roots.add((0, idloc))
    try:
        runner.run_entry(E, body, quiet=True)
    except A.AnalysisError:
        pass
    res = {k: sorted(v) for k, v in out.items()}
    _idcache[key] = res
    return res


def const_bytes_of_operand(prog, body, op, depth=0):
    """constant bytes behind an operand: a byte/str constant, a pointer to a constant allocation,
    or a local that is assigned exactly once from such a constant (through re-borrows / casts)"""
    if depth > 6:
        return None
    if op['k'] == 'const':
        v = op['v']
        if 'bytes' in v:
            return bytes.fromhex(v['bytes'])
        key = v.get('ptr', v.get('alloc'))
        if key is not None:
            a = prog.allocs.get(tuple(key) if isinstance(key, list) else key)
            if a and a.get('k') == 'mem':
                return bytes.fromhex(a['bytes'])[v.get('off', 0):]
        return None
    pl = op['pl']
    if pl['p'] and not (len(pl['p']) == 1 and pl['p'][0][0] == 'deref'):
        return None
    loc = pl['l']
    defs = []
    for bb in body['blocks']:
        for st in bb['s']:
            if st['k'] == 'assign' and st['pl']['l'] == loc and not st['pl']['p']:
                defs.append(st['rv'])
    if len(defs) != 1:
        return None
    rv = defs[0]
    if rv['k'] in ('use', 'cast'):
        return const_bytes_of_operand(prog, body, rv['op'], depth + 1)
    if rv['k'] == 'ref':
        return const_bytes_of_operand(prog, body, {'k': 'copy', 'pl': rv['pl']}, depth + 1)
    return None


def serde_struct_keys(prog, self_name):
    """keys passed to serialize_field by the (derived) Serialize impl of a struct, in order"""
    for b in prog.bodies.values():
        im = b.get('impl')
        if b['kind'] == 'fn' and b['item'] == 'serialize' and im and im.get('self') == self_name and (im.get('trait') or '').endswith('Serialize'):
            keys = []
            for bb in b['blocks']:
                t = bb['t']
                if t and t['k'] == 'call' and t['callee'] and t['callee'].get('item') in ('serialize_field', 'serialize_entry') and len(t['args']) >= 2:
                    k = const_bytes_of_operand(prog, b, t['args'][1])
                    keys.append(k.decode('utf8', 'replace') if k is not None else None)
            return keys
    return None


def synthetic_reader(E, sid=('s', 'synthetic')):
    """abstract deku Reader positioned at bit 0 of an unknown stream"""
    from absint import const_int
    return ('A', (('O', 'stream', (sid, const_int(0), None)), ('T', None, None), const_int(0), const_int(0)))


_bitscache = {}


def variant_field_bits(prog, enum_name, skip=()):
    """{variant index: {field path: (bit position, width)}} for every integer leaf of the value
    built by the derived deku reader of `enum_name`, read from offset 0 of a synthetic stream"""
    key = (id(prog), enum_name, tuple(skip))
    if key in _bitscache:
        return _bitscache[key]
    body = next((b for b in prog.bodies.values() if b['kind'] == 'fn' and b['item'] == 'from_reader_with_ctx'
                 and b.get('impl') and b['impl'].get('self') == enum_name), None)
    if body is None:
        return {}
    E = runner.make_engine(prog, K=8)
    E.skip_bodies = set(skip)
    cell = ('o', ('p', 'reader'))
    out = {}

    def leaves(E_, st, v, path, acc, depth=0):
        v = E_.expand(v) if v[0] == 'T' else v
        if v[0] == 'I':
            r = st.resolve(v)
            t = v[4]
            if t is not None and t[0] == 'bits':
                acc[path] = (t[2], t[3])
            elif t is not None and t[0] == 'Shr' and t[1][0] == 'bits':
                acc[path] = (t[1][2], t[1][3] - t[2][1])
        elif v[0] == 'A' and depth < 6:
            for i, x in enumerate(v[1]):
                leaves(E_, st, x, path + (i,), acc, depth + 1)
        elif v[0] == 'E' and depth < 6 and len(v[2]) == 1:
            vi, fs = v[2][0]
            for i, x in enumerate(fs):
                leaves(E_, st, x, path + (('v', vi), i), acc, depth + 1)

    def hook(E_, st, frame, b, idx, stmt, v):
        if frame.depth != 0 or stmt['rv']['k'] != 'agg' or stmt['rv']['ak']['k'] != 'adt':
            return
        ty = prog.types[stmt['rv']['ak']['ty']]
        if ty['name'] != enum_name:
            return
        acc = out.setdefault(stmt['rv']['ak']['variant'], {})
        for i, o in enumerate(stmt['rv']['ops']):
            leaves(E_, st, E_.operand(st, frame, o), (i,), acc)
    E.stmt_hook = hook

    def pre(E_, st, fr):
        st.cells[cell] = synthetic_reader(E_)
    args = [('R', cell, (), True)] + [None] * (body['argc'] - 1)
    try:
        runner.run_entry(E, body, args, pre=pre, quiet=True)
    except A.AnalysisError:
        pass
    _bitscache[key] = out
    return out


def fmt_signature(prog, body, depth=0):
    """(template bytes, formats through LowerHex) of the text a body produces. A body that builds fmt::Arguments is read
    directly; one that calls `<T as ToString>::to_string` (the blanket impl writes T's Display output) or delegates to
    `<T as Display|LowerHex|...>::fmt` of a workspace type is followed to that impl, so that `self.to_string()` in a
    Serialize impl and `format!("{:06x}", self.0)` are told apart only by what they print."""
    tm, lh, follow = None, False, []
    for bb in body['blocks']:
        t = bb['t']
        if not (t and t['k'] == 'call' and t['callee']):
            continue
        c = t['callee']
        if c.get('item') == 'new' and 'fmt::Arguments' in (c.get('name') or ''):
            tm = const_bytes_of_operand(prog, body, t['args'][0])
        elif c.get('item') == 'new_lower_hex':
            lh = True
        elif c.get('did') == 'alloc::string::ToString::to_string':
            m = re.match(r'<(.+) as std::string::ToString>::to_string$', c.get('name') or '')
            if m:
                follow += [b for b in prog.bodies.values() if b['kind'] == 'fn' and b['item'] == 'fmt' and b.get('impl')
                           and b['impl'].get('self') == m.group(1) and b['impl'].get('trait') == 'std::fmt::Display']
        elif (c.get('did') or '').startswith('core::fmt::') and c.get('item') == 'fmt' and c.get('rdid') in prog.bodies:
            follow.append(prog.bodies[c['rdid']])
    if tm is None and len(follow) == 1 and depth < 3 and follow[0] is not body:
        return fmt_signature(prog, follow[0], depth + 1)
    return tm, lh


class Prefixed:
    """a view of the report that files another checker's rule instances under this property; with `only`, just the rules
    whose name starts with one of the given prefixes (the others are not this property's statement)"""

    def __init__(self, rep, pre, only=None):
        object.__setattr__(self, '_rep', rep)
        object.__setattr__(self, '_pre', pre)
        object.__setattr__(self, '_only', only)

    def _mine(self, rule):
        return self._only is None or rule.startswith(tuple(self._only))

    def __getattr__(self, n):
        return getattr(self._rep, n)

    def __setattr__(self, n, v):
        if n in ('explanation', 'trusted'):
            return          # keep C03's own texts
        setattr(self._rep, n, v)

    def ok(self, rule, key, *a, **kw):
        if not self._mine(rule):
            return None
        return self._rep.ok(self._pre + rule, key, *a, **kw)

    def fail(self, rule, key, *a, **kw):
        if not self._mine(rule):
            return None
        return self._rep.fail(self._pre + rule, key, *a, **kw)

    def check(self, cond, rule, key, *a, **kw):
        if not self._mine(rule):
            return cond
        return self._rep.check(cond, self._pre + rule, key, *a, **kw)

    def absorb_engine(self, E, rule='O1-panic-freedom', **kw):
        if not self._mine(rule):
            return 0
        return self._rep.absorb_engine(E, rule=self._pre + rule, **kw)


def static_reach(prog, roots, crates=('rs1090',)):
    """bodies of the given crates reachable from the roots through resolved callees, closures / coroutines passed or
    built inside a reached body, and trait-method callees resolved to a workspace impl (a static over-approximation)"""
    by_prefix = {}
    for b in prog.bodies.values():
        if b['kind'] != 'fn':
            by_prefix.setdefault(b['name'].split('::{closure')[0].split('::{coroutine')[0], []).append(b)
    seen, work = {}, list(roots)
    while work:
        b = work.pop()
        if b is None or b['id'] in seen or b['crate'] not in crates:
            continue
        seen[b['id']] = b
        work.extend(by_prefix.get(b['name'], []))
        for bb in b['blocks']:
            t = bb['t']
            if t and t['k'] == 'call' and t['callee']:
                tgt = prog.bodies.get(t['callee'].get('rdid') or '')
                if tgt is not None:
                    work.append(tgt)
    return list(seen.values())


# direct uses of state that outlives one call: what makes "decode the same bytes again" able to answer differently
STATE_DENY = (('LocalKey', ('with', 'try_with', 'set', 'replace', 'take', 'with_borrow', 'with_borrow_mut')),
              ('RefCell', ('borrow_mut', 'try_borrow_mut', 'replace', 'replace_with', 'swap', 'take')),
              ('Cell', ('set', 'replace', 'take', 'swap', 'update')),
              ('Mutex', ('lock', 'try_lock', 'get_mut')), ('RwLock', ('write', 'try_write')),
              ('Atomic', ('store', 'swap', 'fetch_add', 'fetch_sub', 'fetch_or', 'fetch_and', 'fetch_xor', 'fetch_max', 'fetch_min',
                          'fetch_update', 'compare_exchange', 'compare_exchange_weak', 'compare_and_swap')))


def _static_locals(prog, b):
    """locals of a body that hold (a reference derived from) a constant pointer: the address of a static item"""
    S = set()
    changed = True
    while changed:
        changed = False
        for bb in b['blocks']:
            for s in bb['s']:
                if s['k'] != 'assign' or s['pl']['p'] or s['pl']['l'] in S:
                    continue
                ty = prog.types[b['locals'][s['pl']['l']]]
                if ty['k'] not in ('ref', 'ptr'):
                    continue
                rv = s['rv']
                if rv['k'] in ('use', 'cast') and rv['op']['k'] == 'const':
                    S.add(s['pl']['l'])
                    changed = True
                else:
                    src = rv['pl'] if rv['k'] in ('ref', 'rawptr') else (rv['op']['pl'] if rv['k'] in ('use', 'cast') and rv['op']['k'] in ('copy', 'move') else None)
                    if src is not None and src['l'] in S:
                        S.add(s['pl']['l'])
                        changed = True
    return S


def hidden_state_calls(prog, bodies):
    """[(body, callee name, line)] for the direct calls of the bodies that enter thread-local state, or that write
    interior-mutable / atomic state reached from the address of a static item (a RefCell in a local variable is not state)"""
    out = []
    for b in bodies:
        S = None
        for bb in b['blocks']:
            t = bb['t']
            if not (t and t['k'] == 'call' and t['callee']):
                continue
            c = t['callee']
            nm = c.get('rname') or c.get('name') or c.get('did') or ''
            item = c.get('item')
            for ty, items in STATE_DENY:
                if item in items and ((ty + '<') in nm or (ty + '::') in nm or ('::' + ty) in nm) and ('std::' in nm or 'core::' in nm):
                    if ty != 'LocalKey':
                        if S is None:
                            S = _static_locals(prog, b)
                        a0 = t['args'][0] if t['args'] else None
                        if not (a0 and (a0['k'] == 'const' or (a0['k'] in ('copy', 'move') and a0['pl']['l'] in S))):
                            continue
                    out.append((b, nm, t.get('sp')))
    return out


def char_functions(prog):
    """[(body, {code: set of char values or None})]: every u8 -> char function or closure of rs1090 statically reachable
    from a `callsign_read`, evaluated by the abstract interpreter on each of the 64 singleton 6-bit codes"""
    import absint as A_
    import runner
    roots = [b for b in prog.bodies.values() if b['crate'] == 'rs1090' and b['kind'] == 'fn' and b['item'] == 'callsign_read']
    out = []
    for b in static_reach(prog, roots):
        if b['kind'] not in ('fn', 'closure'):
            continue
        tys = [prog.types[x]['s'] for x in b['locals'][:b['argc'] + 1]]
        if not (tys and tys[0] == 'char' and tys[-1] == 'u8' and b['argc'] == (1 if b['kind'] == 'fn' else 2)):
            continue
        table = {}
        for c in range(64):
            E = runner.make_engine(prog, K=8)
            args = [A_.const_int(c)] if b['kind'] == 'fn' else [('T', b['locals'][1], None), A_.const_int(c)]
            vals = set()
            for st, v in runner.run_entry(E, b, args, quiet=True):
                x = E.scalar(st, v)
                vals.add(x[1] if x[0] == 'I' and x[1] == x[2] else None)
            table[c] = vals
        out.append((b, table))
    return out
