"""C16 - source and reference strings parse to a value or an error, never a panic.

U1  every panic obligation below <Source as FromStr>::from_str and <Position as FromStr>::from_str
    (any &str) is discharged; constant-argument obligations (URL / regex literals, the airports
    table parsed behind Lazy) are evaluated on the literal / data file of the current tree.
U2  Source::serial has no clock / randomness / environment effect (DefaultHasher has fixed keys;
    RandomState is denied) and formats the table form from exactly (address, port).
U3  the format template used for the string form (tcp arm of from_str) equals the one used for the
    table form in serial.
"""
import json
import os

import absint as A
import facts
import runner
from props import util

EFFECT_DENY = ('RandomState', 'std::time', 'std::env', 'std::fs', 'std::net', 'std::thread', 'std::process', 'rand::',
               'getrandom', 'SystemTime', 'Instant', 'std::hash::random', 'tokio::', 'chrono::')


def json_matches(prog, tyid, val, path='$'):
    """does the JSON value deserialize into the type (serde derive defaults: all non-Option fields
    required, unknown fields ignored)?  returns None or an error string"""
    ty = prog.types[tyid]
    k = ty['k']
    if k in ('int', 'uint'):
        if isinstance(val, bool) or not isinstance(val, int):
            return '%s: expected integer' % path
        lo, hi = A.int_range(ty)
        return None if lo <= val <= hi else '%s: integer out of range' % path
    if k == 'float':
        return None if isinstance(val, (int, float)) and not isinstance(val, bool) else '%s: expected number' % path
    if k == 'bool':
        return None if isinstance(val, bool) else '%s: expected bool' % path
    if k == 'adt':
        n = ty['name']
        if n in ('alloc::string::String', 'std::string::String'):
            return None if isinstance(val, str) else '%s: expected string' % path
        if n in ('alloc::vec::Vec', 'std::vec::Vec'):
            if not isinstance(val, list):
                return '%s: expected array' % path
            for i, x in enumerate(val):
                e = json_matches(prog, ty['args'][0], x, '%s[%d]' % (path, i))
                if e:
                    return e
            return None
        if n in ('core::option::Option', 'std::option::Option'):
            return None if val is None else json_matches(prog, ty['args'][0], val, path)
        if ty['ak'] == 'struct' and ty['variants'] and all('ty' in f for f in ty['variants'][0]['fields']):
            if not isinstance(val, dict):
                return '%s: expected object' % path
            fields = ty['variants'][0]['fields']
            keys = util.serde_struct_keys(prog, ty['name'].split('::', 1)[1] if ty['name'].startswith(('rs1090::', 'jet1090::')) else ty['name'])
            if keys is None or len(keys) != len(fields) or None in keys:
                return '%s: cannot read the serde field names of %s' % (path, ty['name'])
            for f, key in zip(fields, keys):
                f = dict(f, name=key)
                fty = prog.types[f['ty']]
                opt = fty['k'] == 'adt' and fty['name'] in ('core::option::Option', 'std::option::Option')
                if f['name'] not in val:
                    if not opt:
                        return '%s: missing field %s' % (path, f['name'])
                    continue
                e = json_matches(prog, f['ty'], val[f['name']], path + '.' + f['name'])
                if e:
                    return e
            return None
    return '%s: type %s not supported by the data rule' % (path, ty['s'])


def run(prog, rep, tier):
    K = 8 if tier == 'quick' else 16
    rep.explanation = ('Abstract interpretation of the MIR below the two FromStr entry points with an arbitrary &str; '
                       'constant-argument library calls are evaluated on the literal / data file; effect closure and '
                       'format-template comparison for the serial.')
    rep.trusted = ['rustc MIR semantics', 'library contracts in checker/models.py (url 2.x: special schemes have a default port and a path starting with "/"; '
                   'Url::parse / Regex::new literal rules; Option/Result/str/Vec models)', 'checker/absint.py']
    src_fs = util.find_impl_fn(prog, 'source::Source', 'std::str::FromStr', 'from_str', crate='jet1090')
    pos_fs = util.find_impl_fn(prog, 'decode::cpr::Position', 'std::str::FromStr', 'from_str', crate='rs1090')
    serial = util.find_fn(prog, 'source::Source::serial', crate='jet1090')
    for nm, b in (('<Source as FromStr>::from_str', src_fs), ('<Position as FromStr>::from_str', pos_fs), ('Source::serial', serial)):
        if b is None:
            rep.missing(nm)
    if src_fs is None or pos_fs is None or serial is None:
        return
    # ---- U1
    tcp_templates = []
    all_templates = []

    def hook(E_, frame, b, t, sts, c):
        if frame.depth == 0 and c.get('item') == 'new' and 'fmt::Arguments' in (c.get('rname') or c.get('name') or ''):
            a0 = t['args'][0]
            for st in sts:
                v = E_.operand(st, frame, a0)
                lit = util.const_bytes_of_operand(prog, frame.body, a0)
                sch = None
                for tm, r in st.rf.items():
                    if tm[0] == 'streq' and r[0] == 1 and tm[1][0] == 'len' and 'urlscheme' in repr(tm[1][1]):
                        sch = bytes.fromhex(tm[2])
                all_templates.append((sch, lit))
                if sch == b'tcp':
                    tcp_templates.append(lit)
    import models

    def models_const(E_, st, v):
        return models.const_bytes_of(E_, st, v)
    E = runner.make_engine(prog, K=K)
    E.call_hook = hook
    runner.run_entry(E, src_fs)
    n = rep.absorb_engine(E, rule='U1-no-panic')
    rep.floor('Source::from_str obligations', n, 30)
    consts = list(E.const_checks)
    E2 = runner.make_engine(prog, K=K)
    runner.run_entry(E2, pos_fs)
    n2 = rep.absorb_engine(E2, rule='U1-no-panic')
    rep.floor('Position::from_str obligations', n2, 8)
    # U4 (after seed C16-s8): the airport part of a reference is an (unanchored) regular expression over the airport
    # table, and the first match wins; the pattern is compiled in regex's default matching mode.  A mode switch
    # (case_insensitive, multi_line, dot_matches_new_line, swap_greed, ignore_whitespace, crlf, octal = true, unicode =
    # false) changes which airport a code selects ("KOBE" then matches the name "Kobe Airport").  Who-calls rule over
    # the resolved callees of Position::from_str and the workspace functions it calls.
    MODES = {'case_insensitive': 0, 'multi_line': 0, 'dot_matches_new_line': 0, 'swap_greed': 0, 'ignore_whitespace': 0, 'crlf': 0, 'octal': 0, 'unicode': 1}
    seen_b, work, nreg = set(), [pos_fs], 0
    while work:
        b_ = work.pop()
        if b_['id'] in seen_b or len(seen_b) > 40:
            continue
        seen_b.add(b_['id'])
        for bb in b_['blocks']:
            t_ = bb['t']
            if not (t_ and t_['k'] == 'call' and t_['callee']):
                continue
            c_ = t_['callee']
            if c_.get('rcrate') == 'regex':
                nreg += 1
                if c_.get('item') in MODES and 'Builder' in (c_.get('rself') or c_.get('name') or ''):
                    a_ = t_['args'][1] if len(t_['args']) > 1 else None
                    dflt = a_ is not None and a_['k'] == 'const' and str((a_.get('v') or {}).get('int', (a_.get('v') or {}).get('bool'))) in (str(MODES[c_['item']]), 'True' if MODES[c_['item']] else 'False', 'true' if MODES[c_['item']] else 'false')
                    rep.check(dflt, 'U4-default-matching-mode', 'Position::from_str#regex-mode#%s' % c_['item'], '%s:%s' % (b_['file'], t_.get('sp')),
                              'the reference pattern is compiled with %s switched away from its default: airport codes then select other airports than they name' % c_['item'])
            wb_ = prog.bodies.get(c_.get('rdid') or c_.get('did'))
            if wb_ is not None and wb_['crate'] == pos_fs['crate'] and wb_['kind'] in ('fn', 'closure'):
                work.append(wb_)
        for cb in prog.bodies.values():
            if cb['kind'] == 'closure' and cb['name'].startswith(b_['name'] + '::{closure') and cb['id'] not in seen_b:
                work.append(cb)
    rep.floor('regex calls below Position::from_str', nreg, 1)
    # U5: provenance of the two coordinates.  Every Position built in from_str takes its latitude from the airport's
    # `lat` or from the text before the comma (index 0 of the split), its longitude from `lon` or from index 1.
    import dataflow

    def src(pl):
        st_ = dataflow.place_steps(prog, pos_fs, pl)
        if st_ and (st_[-1][0] or '').endswith('Airport') and st_[-1][2] in ('lat', 'lon'):
            return {st_[-1][2]}
        return None

    def cres(c_, ats, args):
        if c_.get('item') == 'index' and len(args) > 1 and args[1]['k'] == 'const' and 'int' in (args[1].get('v') or {}):
            return {('part', int(args[1]['v']['int']))}
        return None
    nagg = 0
    for pb in util.static_reach(prog, [pos_fs]):
        if pb['kind'] not in ('fn', 'closure'):
            continue

        def src(pl, pb=pb):
            st_ = dataflow.place_steps(prog, pb, pl)
            if st_ and (st_[-1][0] or '').endswith('Airport') and st_[-1][2] in ('lat', 'lon'):
                return {st_[-1][2]}
            return None
        tt = None
        for bb in pb['blocks']:
            for s_ in bb['s']:
                if s_['k'] == 'assign' and s_['rv']['k'] == 'agg' and s_['rv']['ak']['k'] == 'adt' and prog.types[s_['rv']['ak']['ty']]['name'].endswith('cpr::Position'):
                    ty_ = prog.types[s_['rv']['ak']['ty']]
                    names = [f['name'] for f in ty_['variants'][0]['fields']]
                    nagg += 1
                    if tt is None:
                        tt = dataflow.Taint(prog, pb, src, call_result=cres)
                    for fname, want in (('latitude', {'lat', ('part', 0)}), ('longitude', {'lon', ('part', 1)})):
                        got = set(x for x in tt.operand_taint(s_['rv']['ops'][names.index(fname)]) if x in ('lat', 'lon') or (isinstance(x, tuple) and x[0] == 'part'))
                        # only a recognisable and wrong source is reported: another way of splitting the text (an iterator
                        # of parts instead of an indexed Vec) gives no label at all and is not this rule's business
                        rep.check(got <= want, 'U5-coordinate-provenance', 'Position::from_str#%s#%d' % (fname, nagg), '%s:%s' % (pb['file'], s_.get('sp')),
                                  '%s of the parsed reference is taken from %s (expected %s)' % (fname, sorted(map(str, got)), sorted(map(str, want))),
                                  sample={'field': fname, 'from': sorted(map(str, got))}, nontrivial=bool(got))
    rep.floor('Position values built below from_str', nagg, 1)
    rep.ok('U4-default-matching-mode', 'Position::from_str#regex-calls-examined', True, {'regex_calls': nreg, 'bodies': len(seen_b)})
    consts += E2.const_checks
    for kind, lit, good, site in sorted(set(c_[:4] for c_ in consts if c_[0] in ('regex', 'url'))):
        rep.check(good, 'U1-constant-argument', '%s-literal:%s' % (kind, lit), site,
                  '%s literal %r is not accepted by the literal rule' % (kind, lit), sample={'literal': lit, 'kind': kind, 'ok': good})
    # the airport table behind Lazy: serde_json::from_str(include_str!(..)).unwrap()
    lazy = [b for b in prog.bodies.values() if b['kind'] == 'closure' and b['name'].startswith('data::airports::AIRPORTS::')]
    if not lazy:
        rep.missing('data::airports::AIRPORTS initialiser')
    for lb in lazy:
        calls = [bb['t'] for bb in lb['blocks'] if bb['t'] and bb['t']['k'] == 'call' and bb['t']['callee']]
        for t in calls:
            c = t['callee']
            site = '%s:%s' % (lb['file'], t.get('sp'))
            if c.get('item') == 'from_str' and 'serde_json' in (c.get('did') or ''):
                a0 = t['args'][0]
                lit = util.const_bytes_of_operand(prog, lb, a0)
                target = c['targs'][-1] if c.get('targs') else None
                err = 'argument is not a constant'
                if lit is not None and target is not None:
                    try:
                        data = json.loads(lit.decode('utf8'))
                        err = json_matches(prog, target, data)
                    except ValueError as e:
                        err = 'invalid JSON: %s' % e
                rep.check(err is None, 'U1-constant-argument', 'data:airports.json', site,
                          'the embedded airports table does not deserialize into %s: %s' % (prog.types[target]['s'] if target is not None else '?', err),
                          sample={'data': 'airports.json', 'records': len(data) if lit is not None and err is None else None})
            elif c.get('item') in ('unwrap', 'expect'):
                rep.ok('U1-constant-argument', 'lazy-unwrap:' + lb['name'], False)
            elif (c.get('rcrate') or '') not in A.TRUSTED_CRATES:
                rep.fail('U1-no-panic', 'lazy-call:' + (c.get('did') or '?'), site, 'unexpected call in the Lazy initialiser')
    # ---- U2
    E3 = runner.make_engine(prog, K=K)
    fmt_args = []

    def hook3(E_, frame, b, t, sts, c):
        if frame.depth == 0 and (c.get('item') or '').startswith('new_display'):
            for st in sts:
                v = E_.operand(st, frame, t['args'][0])
                v = E_.expand(v)
                # &&String / &u16: follow one level of reference to the field place
                for _ in range(2):
                    if v[0] == 'R' and v[1] is not None:
                        inner = E_.read_lv(st, (v[1], v[2]), None)
                        if inner[0] == 'R':
                            v = inner
                            continue
                    break
                fmt_args.append((b, v[1] if v[0] == 'R' else None, v[2] if v[0] == 'R' else None))
    E3.call_hook = hook3
    runner.run_entry(E3, serial)
    n3 = rep.absorb_engine(E3, rule='U2-serial-no-panic')
    rep.floor('Source::serial obligations', n3, 2)
    for did in sorted(E3.ext_calls):
        nm = E3.ext_names.get(did, did)
        bad = any(x in nm for x in EFFECT_DENY) or any(x in did for x in EFFECT_DENY if x != 'std::hash::random')
        okc = did.split('::')[0] in ('core', 'alloc', 'std')
        rep.check(not bad and okc, 'U2-effects', 'serial-ext:' + did, serial['file'],
                  'Source::serial reaches %s (clock / randomness / environment / non-std effect)' % nm, nontrivial=False)
    rep.floor('external callees of serial', len(E3.ext_calls), 3)
    hashers = sorted(E3.ext_names.get(d, d) for d in E3.ext_calls if 'DefaultHasher' in E3.ext_names.get(d, d))
    rep.check(bool(hashers), 'U2-effects', 'serial-hasher', serial['file'], 'no fixed-key hasher call found in Source::serial / build_serial (hashers: %s)' % hashers,
              sample={'hasher_calls': hashers})
    # the two formatted values are the `address` and `port` fields of the same AddressStruct
    paths = sorted(set((c, p) for _, c, p in fmt_args), key=repr)
    tails = sorted((p[-1] for _, p in paths if p), key=repr)
    same_root = len(set((c, p[:-1]) for c, p in paths if p)) == 1
    rep.check(len(paths) == 2 and tails == [0, 1] and same_root, 'U2-serial-arguments', 'serial#format-args', serial['file'],
              'the table-form serial is not formatted from exactly (address, port) of one AddressStruct: %r' % (paths,),
              sample={'format_arg_places': [repr(p) for p in paths]})
    # ---- U3
    ser_templates = []
    for bb in serial['blocks']:
        t = bb['t']
        if t and t['k'] == 'call' and t['callee'] and t['callee'].get('item') == 'new' and 'fmt::Arguments' in (t['callee'].get('name') or ''):
            ser_templates.append(util.const_bytes_of_operand(prog, serial, t['args'][0]))
    tcp = sorted(set(x for x in tcp_templates if x is not None))
    ok = len(ser_templates) == 1 and len(tcp) == 1 and ser_templates[0] == tcp[0]
    rep.check(ok, 'U3-same-template', 'serial#template', serial['file'],
              'format template of the tcp string form %r differs from the table form %r' % (tcp, ser_templates),
              sample={'tcp_template_hex': tcp[0].hex() if tcp else None, 'serial_template_hex': ser_templates[0].hex() if ser_templates and ser_templates[0] else None,
                      'templates_by_scheme': [(s.decode() if s else None, l.hex() if l else None) for s, l in all_templates]})
    rep.floor('format sites in from_str', len(all_templates), 3)
    endpoint_provenance(prog, rep, src_fs)


# accessors of url::Url whose result may become part of the endpoint text.  `host_str` is the URL's own spelling of the host
# (an IPv6 literal keeps its brackets, so "host:port" stays a socket address); `host()` / `domain()` are different functions of
# the same URL (Host::Ipv6 displays a bare address; domain() is None for IP literals).
URL_OK = {'parse', 'join', 'host_str', 'port_or_known_default', 'port', 'path', 'scheme', 'as_str'}


def _url_tags(prog, body, memo):
    """names of the url-crate functions called in a body, its closures and its workspace callees"""
    if body['id'] in memo:
        return memo[body['id']]
    memo[body['id']] = out = set()
    todo = [body] + [cb for cb in prog.bodies.values() if cb['kind'] == 'closure' and cb['name'].startswith(body['name'] + '::{closure')]
    for b in todo:
        for bb in b['blocks']:
            t = bb['t']
            if t and t['k'] == 'call' and t['callee']:
                c = t['callee']
                if _is_url_fn(c):
                    out.add(c.get('item'))
                tgt = prog.bodies.get(c.get('rdid') or '')
                if tgt is not None and tgt['crate'] in ('jet1090', 'rs1090') and tgt is not body:
                    out |= _url_tags(prog, tgt, memo)
    return out


def _is_url_fn(c):
    n = c.get('did') or c.get('name') or ''
    return n.startswith('url::') or '<url::' in n or ' url::' in n


def endpoint_provenance(prog, rep, src_fs):
    """U6 (after seed C16-s7): the text of a tcp / udp / websocket endpoint built by Source::from_str is made of the URL's own
    host string, its port and its path - no other view of the URL (Url::host / Host's Display, Url::domain, ...) flows into it."""
    import dataflow
    memo = {}

    def cres(c_, ats, args):
        allt = set().union(*ats) if ats else set()
        if _is_url_fn(c_):
            return allt | {('url', c_.get('item'))}
        tgt = prog.bodies.get(c_.get('rdid') or '')
        if tgt is not None and tgt['crate'] in ('jet1090', 'rs1090'):
            # what the helper *returns* (taint of its return place), not everything it looks at: `url.host().is_some()`
            # deciding a branch inside a helper does not put Host's Display into the endpoint text
            if tgt['id'] not in memo:
                memo[tgt['id']] = set()          # recursion guard
                ht = dataflow.Taint(prog, tgt, lambda pl: None, call_result=cres)
                memo[tgt['id']] = set(x for x in ht.t.get(0, set()) if isinstance(x, tuple) and x[0] == 'url')
            return allt | memo[tgt['id']]
        return None
    tt = dataflow.Taint(prog, src_fs, lambda pl: None, call_result=cres)
    nagg = 0
    for bb in src_fs['blocks']:
        for s_ in bb['s']:
            if s_['k'] == 'assign' and s_['rv']['k'] == 'agg' and s_['rv']['ak']['k'] == 'adt':
                ty_ = prog.types[s_['rv']['ak']['ty']]
                if not ty_['name'].endswith('source::Address'):
                    continue
                vname = ty_['variants'][s_['rv']['ak'].get('variant', 0)]['name']
                if vname not in ('Tcp', 'Udp', 'Websocket'):
                    continue
                nagg += 1
                got = set()
                for o in s_['rv']['ops']:
                    got |= set(x[1] for x in tt.operand_taint(o) if isinstance(x, tuple) and x[0] == 'url')
                extra = sorted(got - URL_OK)
                rep.check('host_str' in got and not extra, 'U6-endpoint-provenance', 'Source::from_str#Address::%s' % vname, '%s:%s' % (src_fs['file'], s_.get('sp')),
                          'the %s endpoint text is built from %s; expected the URL\'s own host string (host_str), port and path only%s'
                          % (vname, sorted(got), (': %s is another view of the URL (an IPv6 literal loses its brackets through Host\'s Display, domain() is None for IP '
                                                  'literals)' % extra) if extra else ''),
                          sample={'variant': vname, 'url_accessors': sorted(got)})
    rep.floor('Address values built in Source::from_str', nagg, 3)
    # U7 (after seed C16-s11): ws is a special scheme - the url crate drops an explicit port equal to the scheme default, so
    # Url::port() is None for "ws://host:80/..".  A fallback constant applied to a port()-derived Option that reaches the
    # websocket endpoint must therefore be that default (80); port_or_known_default() needs no fallback.
    SPECIAL_DEFAULT = {'Websocket': 80}
    for bb in src_fs['blocks']:
        t_ = bb['t']
        if not (t_ and t_['k'] == 'call' and t_['callee'] and t_['callee'].get('item') == 'unwrap_or' and len(t_['args']) == 2):
            continue
        got = set(x[1] for x in tt.operand_taint(t_['args'][0]) if isinstance(x, tuple) and x[0] == 'url')
        if 'port' not in got or 'port_or_known_default' in got:
            continue
        a1 = t_['args'][1]
        val = int(a1['v']['int']) if a1['k'] == 'const' and 'int' in (a1.get('v') or {}) else None
        # which endpoints does this value reach?
        dl = t_['dest']['l']
        for bb2 in src_fs['blocks']:
            for s_ in bb2['s']:
                if s_['k'] == 'assign' and s_['rv']['k'] == 'agg' and s_['rv']['ak']['k'] == 'adt' and prog.types[s_['rv']['ak']['ty']]['name'].endswith('source::Address'):
                    vname = prog.types[s_['rv']['ak']['ty']]['variants'][s_['rv']['ak'].get('variant', 0)]['name']
                    if vname in SPECIAL_DEFAULT and _flows(src_fs, dl, set(p_['l'] for o in s_['rv']['ops'] for p_ in dataflow.operand_places(o))):
                        rep.check(val == SPECIAL_DEFAULT[vname], 'U7-special-scheme-port', 'Source::from_str#Address::%s#port-fallback' % vname, '%s:%s' % (src_fs['file'], t_.get('sp')),
                                  'the %s endpoint takes its port from Url::port() with the fallback %s; Url::port() is None when the explicit port equals the scheme default (%d), '
                                  'so "ws://host:%d/.." would be given port %s' % (vname, val, SPECIAL_DEFAULT[vname], SPECIAL_DEFAULT[vname], val))


def _flows(body, l0, targets):
    """flow-insensitive: does the value of local l0 reach one of the target locals (through assignments and calls)"""
    import dataflow
    R = {l0}
    changed = True
    while changed:
        changed = False
        for bb in body['blocks']:
            for s in bb['s']:
                if s['k'] == 'assign' and s['pl']['l'] not in R and any(p['l'] in R for p in dataflow.rvalue_places(s['rv'])):
                    R.add(s['pl']['l'])
                    changed = True
            t = bb['t']
            if t and t['k'] == 'call' and t['dest']['l'] not in R and any(a['k'] in ('copy', 'move') and a['pl']['l'] in R for a in t['args']):
                R.add(t['dest']['l'])
                changed = True
    return bool(R & targets)


def resolve_template(prog, body, op):
    """constant bytes behind a local that was assigned a constant reference"""
    if op['k'] == 'const':
        return bytes.fromhex(op['v']['bytes']) if 'bytes' in op['v'] else None
    loc = op['pl']['l']
    for bb in body['blocks']:
        for s in bb['s']:
            if s['k'] == 'assign' and s['pl']['l'] == loc and not s['pl']['p'] and s['rv']['k'] in ('use', 'cast'):
                return resolve_template(prog, body, s['rv']['op'])
    return None
