"""C14 - registration lookup from the address (clause-limited, see DESIGN.md §7).

Q1  totality: every panic obligation below tail(u32 any) and aircraft_information(&str any, ..) is
    discharged; the two mapping tables (Lazy<Vec<..>>) are evaluated element by element with their
    literal constructor arguments; obligations that depend on the embedded data file (patterns.json:
    `&start[2..]`, from_str_radix(..).unwrap(), Regex::new(pattern).unwrap()) are discharged by a data
    rule evaluated on the file of the current tree.
Q2  country: every address range in which a mapping can answer (stride / numeric rows from their
    evaluated constructor values; N / JA / HL by abstract execution over the blocks of
    patterns.json) lies inside a block of patterns.json whose pattern matches the mapping's prefix.
Q3  no aliasing between mappings: address ranges are pairwise disjoint; mappings with the same
    prefix produce disjoint letter ranges; different prefixes are not prefixes of one another.
Q4  injectivity inside a mapping, from the shape of the computation: stride_reg indexes its alphabet
    with  X/s1, (X%s1)/s2, (X%s1)%s2  where X is affine with slope 1 in the address (a mixed-radix
    decomposition: the triple determines X) and the alphabet has no repeated letter; numeric_reg
    prints an affine slope-1 value over a zero-padded template wide enough for the largest value;
    hl_reg prints affine slope-1 values whose ranges are disjoint.
    Every value of the N / JA decoders (and of n_letters / n_letter) that is both divided and reduced modulo a
    constant uses the same constant for both (positional decomposition; after seed C14-s3).
Not decided: full injectivity inside the N-number / JA numeral systems (prefix-freeness of the suffix languages).
"""
import json
import os
import re

import absint as A
import models
import runner
from absint import T, mk_int, const_int
from props import util

REPO = os.environ.get('VERIF_REPO', '/repo')


def fmt_leading_literal(tpl):
    """leading literal piece of a compiled format template (length-prefixed pieces, 0xc0 = argument)"""
    if not tpl:
        return None
    n = tpl[0]
    if 1 <= n < 0x80 and len(tpl) > n:
        return tpl[1:1 + n].decode('utf8', 'replace')
    return ''


def run(prog, rep, tier):
    rep.explanation = ('Abstract interpretation of tail() / aircraft_information() for every address, with the two mapping tables evaluated '
                       'row by row from their literal constructor arguments; the evaluated rows (start, end, prefix, strides) and abstract '
                       'runs of the N / JA / HL decoders over the address blocks of patterns.json are compared with that table.')
    rep.trusted = ['rustc MIR', 'checker/absint.py', 'library contracts (Lazy, vec!, chars/position/nth on constants, String, regex literal rule)',
                   'python re for the category patterns of patterns.json (common subset with the regex crate)']
    f_tail = util.find_fn(prog, 'data::tail::tail', crate='rs1090')
    f_info = util.find_fn(prog, 'data::patterns::aircraft_information', crate='rs1090')
    fns = {n: util.find_fn(prog, 'data::tail::' + n, crate='rs1090') for n in ('n_reg', 'ja_reg', 'hl_reg', 'numeric_reg', 'stride_reg')}
    for nm, b in [('tail', f_tail), ('aircraft_information', f_info)] + list(fns.items()):
        if b is None:
            rep.missing(nm)
    if f_tail is None or f_info is None or None in fns.values():
        return
    # ---- data file
    pj = os.path.join(REPO, 'crates/rs1090/data/patterns.json')
    try:
        with open(pj) as fh:
            pdata = json.load(fh)
    except (OSError, ValueError) as e:
        rep.fail('Q1-data', 'patterns.json#parse', pj, 'cannot parse patterns.json: %s' % e)
        return
    regs = pdata.get('registers', [])
    rep.floor('register blocks in patterns.json', len(regs), 150)
    hexre = re.compile(r'^0x[0-9a-fA-F]{1,8}$')
    bad_bounds = [(r.get('country'), r.get('start'), r.get('end')) for r in regs
                  if (r.get('start') is not None and r.get('end') is not None) and not (hexre.match(r['start']) and hexre.match(r['end']))]
    bad_pat = []
    npat = 0
    for r in regs:
        for cat in (r.get('categories') or []):
            npat += 1
            if not models.regex_literal_ok(cat.get('pattern', '(')):
                bad_pat.append(cat.get('pattern'))
    data_rules = {
        'bounds': (not bad_bounds, 'start/end not of the form 0x<1-8 hex digits>: %s' % bad_bounds[:3]),
        'patterns': (not bad_pat, 'category patterns outside the regex subset / not compiling: %s' % bad_pat[:3]),
    }
    rep.check(data_rules['bounds'][0], 'Q1-data', 'patterns.json#bounds', pj, data_rules['bounds'][1], sample={'blocks_with_bounds': sum(1 for r in regs if r.get('start'))})
    rep.check(data_rules['patterns'][0], 'Q1-data', 'patterns.json#category-patterns', pj, data_rules['patterns'][1], sample={'category_patterns': npat})
    # ---- Q1
    E = runner.make_engine(prog, K=8)
    runner.run_entry(E, f_tail)
    n = rep.absorb_engine(E, rule='Q1-totality')
    rep.floor('obligations below tail()', n, 80)
    lazies = {k[2]: v for k, v in E.kcells.items() if k[1] == 'lazy'}
    E2 = runner.make_engine(prog, K=8)
    E2.skip_bodies = {f_tail['name']}          # analysed above with the same (arbitrary) argument
    runner.run_entry(E2, f_info)
    obl = E2.obligations()
    # obligations below aircraft_information that depend on the embedded data file: a `&text[2..]` on, or an
    # `unwrap()` of a result computed from, a string of the deserialised table.  They are recognised by what
    # produced the unwrapped value (from_str_radix / Regex::new), wherever the code sits in the module.
    def producer(fn_name, key):
        body = next((b_ for b_ in prog.bodies.values() if b_['name'] == fn_name and b_['crate'] == 'rs1090'), None)
        if body is None:
            return None
        m_ = re.search(r'#call:.*::(\w+)#(\d+)$', key)
        if not m_:
            return None
        item, ordn = m_.group(1), int(m_.group(2))
        calls = [bb['t'] for bb in body['blocks'] if bb['t'] and bb['t']['k'] == 'call' and bb['t']['callee'] and bb['t']['callee'].get('item') == item]
        if ordn >= len(calls):
            return None
        t_ = calls[ordn]
        if item == 'index':
            return 'index'
        cur = t_['args'][0]['pl']['l'] if t_['args'] and t_['args'][0]['k'] != 'const' else None
        for _ in range(8):
            if cur is None:
                return None
            cdef = [bb['t'] for bb in body['blocks'] if bb['t'] and bb['t']['k'] == 'call' and bb['t']['dest']['l'] == cur and not bb['t']['dest']['p']]
            if cdef:
                # the parsed text must come from the table (a Register / Category value), not from a caller-supplied
                # string or number
                import dataflow

                def src(pl):
                    l_ = pl['l']
                    if 1 <= l_ <= body['argc']:
                        ty_ = prog.types[body['locals'][l_]]
                        while ty_['k'] in ('ref', 'ptr'):
                            ty_ = prog.types[ty_['to']]
                        if not (ty_['k'] == 'adt' and ty_['name'].startswith('data::patterns::')) and ty_['k'] not in ('closure',):
                            return {'user'}
                    return None
                tt_ = dataflow.Taint(prog, body, src)
                if any('user' in tt_.operand_taint(a_) for a_ in cdef[0]['args']):
                    return 'user-input'
                return (cdef[0]['callee'] or {}).get('item')
            defs = [s_ for bb in body['blocks'] for s_ in bb['s'] if s_['k'] == 'assign' and s_['pl']['l'] == cur and not s_['pl']['p']]
            if len(defs) != 1:
                return None
            import dataflow
            pls = dataflow.rvalue_places(defs[0]['rv'])
            cur = pls[0]['l'] if pls else None
        return None
    RULE_OF = {'index': 'bounds', 'from_str_radix': 'bounds', 'new': 'patterns'}
    nd = 0
    for k in sorted(obl):
        o = obl[k]
        if o['ok']:
            rep.ok('Q1-totality', k, o['nontrivial'])
            continue
        rule = None
        if o['fn'].startswith('data::patterns::'):
            rule = RULE_OF.get(producer(o['fn'], k))
        ob = o['open'][0]
        if rule is not None:
            nd += 1
            rep.check(data_rules[rule][0], 'Q1-data-obligation', k, o['site'], 'depends on the data file: ' + data_rules[rule][1],
                      sample={'obligation': k, 'discharged_by': 'data rule "%s" on patterns.json' % rule} if nd <= 2 else None)
        else:
            via = [p[0] if isinstance(p[0], str) else p[0][1] for p in ob.path]
            rep.fail('Q1-totality', k, o['site'], ob.detail or o['kind'], fn=o['fn'], path=via[-6:])
    rep.floor('data-dependent obligations', nd, 4)
    for cc in E2.const_checks + E.const_checks:
        if cc[0] == 'json':
            rep.check(cc[2], 'Q1-data', 'embedded-json:' + cc[1], cc[3], 'the embedded file does not deserialize into %s: %s' % (cc[1], cc[4] if len(cc) > 4 else ''))
    # ---- rows of the two tables
    rows = []     # (kind, start, end, prefix, extra)
    sm = lazies.get('rs1090::data::tail::STRIDE_MAPPINGS')
    nm = lazies.get('rs1090::data::tail::NUMERIC_MAPPINGS')
    st_t = util.adt_type(prog, 'data::tail::StrideMapping')
    nu_t = util.adt_type(prog, 'data::tail::NumericMapping')
    if sm is None or nm is None or sm[0] != 'S' or nm[0] != 'S' or sm[3] is None or nm[3] is None or st_t is None or nu_t is None:
        rep.missing('evaluated STRIDE_MAPPINGS / NUMERIC_MAPPINGS', '(the Lazy initialisers could not be evaluated element-wise)')
        return

    def fields(val, ty):
        return {f['name']: val[1][i] for i, f in enumerate(ty['variants'][0]['fields'])}

    def cint(v):
        return v[1] if v[0] == 'I' and v[1] == v[2] else None

    def cstr(v):
        if v[0] == 'S' and v[3] is not None and all(A.is_const(x) for x in v[3]):
            return bytes(x[1] for x in v[3]).decode('utf8', 'replace')
        return None
    # stride rows, read semantically: stride_reg is run for an arbitrary address; at the call that prints a row's
    # prefix (Argument::new_display::<String>) the state holds the prefix as a constant string and the interval of
    # the addresses the row's guard admits.  Field names of StrideMapping are not relied upon (seed C14-s8 kept
    # `start` under another name with another meaning).
    HEX = T('o', ('p', 'hexid'))
    Es = runner.make_engine(prog, K=64)
    sem = {}          # (lo, hi) of the admitted addresses -> {'prefix', 'alphabet', 'nth': [index terms]}
    order = []

    def strval(E_, st, v):
        v = st.resolve(v)
        d = 0
        while v != A.BOT and v[0] == 'R' and d < 3:
            v = st.resolve(models.deref(E_, st, v))
            d += 1
        return cstr(E_.expand(v)) if v != A.BOT else None

    def shook(E_, frame, bb, t, sts, c):
        if '::stride_reg' not in frame.body['name'] or frame.depth > 2:
            return
        it_ = c.get('item')
        nm_ = c.get('name') or ''
        if not ((it_ == 'new_display' and nm_.endswith('String>')) or it_ == 'nth' or (it_ == 'chars' and 'str' in nm_)):
            return
        for st in sts:
            iv = E_.ival(st, HEX)
            key = (iv[0], iv[1]) if iv else None
            if key not in sem:
                sem[key] = {'prefix': set(), 'alphabet': set(), 'nth': []}
                order.append(key)
            if it_ == 'new_display':
                sem[key]['prefix'].add(strval(E_, st, E_.operand(st, frame, t['args'][0])))
            elif it_ == 'chars':
                sem[key]['alphabet'].add(strval(E_, st, E_.operand(st, frame, t['args'][0])))
            else:
                v = st.resolve(E_.operand(st, frame, t['args'][1]))
                if v != A.BOT and v[0] == 'R':
                    v = models.deref(E_, st, v)
                v = E_.scalar(st, v)
                sem[key]['nth'].append(v[4] if v[0] == 'I' else None)
    Es.call_hook = shook
    runner.run_entry(Es, fns['stride_reg'], [Es.reg(mk_int(0, (1 << 32) - 1, 0, HEX))], quiet=True)
    import terms as _terms
    rep.check(len(order) == len(sm[3]), 'Q2-rows', 'stride-rows#one-answering-range-per-row', f_tail['file'],
              'STRIDE_MAPPINGS has %d rows but stride_reg answers in %d distinct address ranges' % (len(sm[3]), len(order)))
    for i, key in enumerate(order):
        ent = sem[key]
        row = {'start': key[0] if key else None, 'end': key[1] if key else None,
               'prefix': next(iter(ent['prefix'])) if len(ent['prefix']) == 1 else None,
               'alphabet': next(iter(ent['alphabet'])) if len(ent['alphabet']) == 1 else None}
        # strides and offset from the index terms X/s1, (X%s1)/s2, (X%s1)%s2 with X = address + c
        s1 = s2 = off = None
        for tm in ent['nth']:
            if tm is not None and tm[0] == 'Div' and tm[2][0] == 'c' and tm[1][0] != 'Rem':
                s1 = tm[2][1]
                try:
                    a_, c_, n_ = _terms.affine_over(tm[1])
                    if a_ == 1 and row['start'] is not None:
                        off = row['start'] + c_
                except _terms.NotNormal:
                    pass
            elif tm is not None and tm[0] == 'Div' and tm[2][0] == 'c' and tm[1][0] == 'Rem':
                s2 = tm[2][1]
        row.update({'s1': s1, 's2': s2, 'offset': off})
        ok = None not in row.values()
        rep.check(ok, 'Q2-rows', 'stride-row-%d#constants' % i, f_tail['file'], 'row %d of STRIDE_MAPPINGS: prefix, alphabet, answering range or strides not constant: %s' % (i, row), nontrivial=True,
                  sample={'row': i, **row} if i in (0, 5) else None)
        if row['start'] is not None and row['end'] is not None and row['prefix'] is not None:
            rows.append(('stride', row['start'], row['end'], row['prefix'], row))
    for i, it in enumerate(nm[3]):
        f = fields(it, nu_t)
        row = {k: cint(f[k]) for k in ('start', 'first', 'end')}
        row['template'] = cstr(f['template'])
        ok = None not in row.values()
        rep.check(ok, 'Q2-rows', 'numeric-row-%d#constants' % i, f_tail['file'], 'row %d of NUMERIC_MAPPINGS does not evaluate to constants: %s' % (i, row))
        if ok:
            pre = re.match(r'^[A-Z0-9]+-?[A-Z]*', row['template']).group(0).rstrip('0')
            rows.append(('numeric', row['start'], row['end'], pre, row))
    rep.floor('stride rows', len([r for r in rows if r[0] == 'stride']), 25)
    rep.floor('numeric rows', len([r for r in rows if r[0] == 'numeric']), 2)
    # ---- blocks
    blocks = []
    for r in regs:
        if r.get('start') and r.get('end') and hexre.match(r['start']) and hexre.match(r['end']):
            blocks.append((int(r['start'], 16), int(r['end'], 16), r.get('pattern'), r.get('country')))

    edges = sorted(set([0, 1 << 24] + [b[0] for b in blocks] + [b[1] + 1 for b in blocks]))
    classes = [(edges[i], edges[i + 1] - 1) for i in range(len(edges) - 1) if edges[i] < (1 << 24)]

    def first_block(lo, hi):
        """the block aircraft_information() finds for the addresses of one class (first match in file order)"""
        for b in blocks:
            if b[0] <= lo and hi <= b[1]:
                return b
        return None

    def pattern_matches(pat, prefix):
        if pat is None:
            return False
        try:
            # the block pattern is an anchored regex on registrations; the prefix must be compatible
            return re.match(pat, prefix) is not None or re.match(pat, prefix + 'AAAAA') is not None or re.match(pat, prefix + '00000') is not None
        except re.error:
            return False

    def country_ok(lo, hi, prefix):
        """every class of addresses inside lo..hi is assigned to a block whose pattern admits the prefix"""
        bad, countries = [], []
        for clo, chi in classes:
            if chi < lo or clo > hi:
                continue
            b = first_block(clo, chi)
            if b is None or not pattern_matches(b[2], prefix):
                bad.append((hex(max(lo, clo)), hex(min(hi, chi)), b[3] if b else 'no block'))
            elif b[3] not in countries:
                countries.append(b[3])
        return bad, countries
    for kind, lo, hi, prefix, row in rows:
        key = '%s[%s@%#x]' % (kind, prefix, lo)
        bad, countries = country_ok(lo, hi, prefix) if lo <= hi else ([('empty range',)], [])
        rep.check(not bad, 'Q2-country', key, f_tail['file'],
                  'mapping %s answers for %#x..%#x with prefix %r, but patterns.json assigns %s' % (kind, lo, hi, prefix, bad[:3]),
                  sample={'mapping': key, 'range': [hex(lo), hex(hi)], 'country': countries} if len(rep.samples) < 11 else None)
    # N / JA / HL: abstract execution per class of addresses; the prefix is the leading literal
    classes.append((1 << 24, (1 << 32) - 1))
    rep.floor('address classes', len(classes), 150)
    prefixes = {}
    for name in ('n_reg', 'ja_reg', 'hl_reg'):
        b = fns[name]
        lits = []
        for bb in b['blocks']:
            t = bb['t']
            if t and t['k'] == 'call' and t['callee']:
                if t['callee'].get('item') == 'new' and 'fmt::Arguments' in (t['callee'].get('name') or ''):
                    lits.append(fmt_leading_literal(util.const_bytes_of_operand(prog, b, t['args'][0])))
                if t['callee'].get('item') == 'from' and 'String' in (t['callee'].get('name') or ''):
                    x = util.const_bytes_of_operand(prog, b, t['args'][0])
                    if x is not None:
                        lits.append(x.decode('utf8', 'replace'))
        lits = sorted(set(l for l in lits if l))
        rep.check(len(lits) == 1, 'Q2-country', name + '#prefix-literal', b['file'], 'cannot read a single registration prefix literal from %s: %s' % (name, lits))
        if len(lits) != 1:
            continue
        prefixes[name] = lits[0]
        answered = []
        for lo, hi in classes:
            E3 = runner.make_engine(prog, K=8)
            rets = runner.run_entry(E3, b, [E3.reg(mk_int(lo, hi, 0, T('o', ('p', 'hexid'))))], quiet=True)
            some = False
            for st, v in rets:
                r = st.resolve(E3.expand(v))
                if r != A.BOT and r[0] == 'E' and any(i == 1 for i, _ in r[2]):
                    some = True
            if some:
                answered.append((lo, hi))
        rep.floor('classes in which %s can answer' % name, len(answered), 1)
        for lo, hi in answered:
            fb = first_block(lo, hi)
            okb = fb is not None and pattern_matches(fb[2], lits[0])
            rep.check(okb, 'Q2-country', '%s@%#x' % (name, lo), b['file'],
                      '%s (prefix %r) can return a registration for addresses %#x..%#x, which patterns.json assigns to %s'
                      % (name, lits[0], lo, hi, (fb[2], fb[3]) if fb else 'no country'),
                      sample={'fn': name, 'prefix': lits[0], 'class': [hex(lo), hex(hi)], 'country': fb[3] if fb else None})
            rows.append((name, lo, hi, lits[0], None))
    # ---- Q4 forms
    import terms

    def collect(fn, item, argi, rself=None):
        E4 = runner.make_engine(prog, K=8)
        seen = []

        def hook(E_, frame, bb, t, sts, c):
            if ('::' + fn) in frame.body['name'] and frame.depth <= 2 and c.get('item') == item and (rself is None or any((c.get('name') or '').startswith('<%s as ' % r) or (c.get('name') or '').endswith('::<%s>' % r) for r in rself)):
                for st in sts:
                    v = E_.operand(st, frame, t['args'][argi])
                    v = st.resolve(v)
                    if v != A.BOT and v[0] == 'R':
                        v = models.deref(E_, st, v)
                    seen.append((bb, E_.scalar(st, v)))
        E4.call_hook = hook
        runner.run_entry(E4, fns[fn], quiet=True)
        return seen

    def slope1(t):
        try:
            a, c, n = terms.affine_over(t)
        except terms.NotNormal as e:
            return None
        return (a, c, n)
    param = None
    seen = collect('stride_reg', 'nth', 1)
    rep.floor('alphabet index computations in stride_reg', len(seen), 3 * len([r for r in rows if r[0] == 'stride']))
    by_x = {}
    for bb, v in seen:
        t = v[4] if v[0] == 'I' else None
        form = None
        if t is not None and t[0] == 'Div' and t[2][0] == 'c':
            if t[1][0] == 'Rem' and t[1][2][0] == 'c':
                form = ('i2', t[1][1], t[1][2][1], t[2][1])
            else:
                form = ('i1', t[1], t[2][1], None)
        elif t is not None and t[0] == 'Rem' and t[2][0] == 'c' and t[1][0] == 'Rem' and t[1][2][0] == 'c':
            form = ('i3', t[1][1], t[1][2][1], t[2][1])
        if form is None:
            rep.fail('Q4-stride-form', 'stride_reg#index-form', fns['stride_reg']['file'],
                     'an alphabet index in stride_reg is not of the form X/s1, (X%%s1)/s2 or (X%%s1)%%s2: %s' % (A.show_term(t) if t else A.show_val(v)))
            continue
        by_x.setdefault(form[1], {})[form[0]] = form
    nrow_ok = 0
    for x, fm in by_x.items():
        sl = slope1(x)
        ok = set(fm) == {'i1', 'i2', 'i3'} and sl is not None and abs(sl[0]) == 1 \
            and fm['i1'][2] == fm['i2'][2] == fm['i3'][2] and fm['i2'][3] == fm['i3'][3] and fm['i2'][3] <= fm['i1'][2]
        nrow_ok += bool(ok)
        rep.check(ok, 'Q4-stride-form', 'stride_reg#decomposition[%s]' % (sl[1] if sl else '?'), fns['stride_reg']['file'],
                  'the three alphabet indexes are not a mixed-radix decomposition of one slope-1 offset: %s' % {k: (A.show_term(v_[1]), v_[2], v_[3]) for k, v_ in fm.items()},
                  sample={'offset': A.show_term(x), 's1': fm.get('i1', (0, 0, None))[2], 's2': fm.get('i2', (0, 0, 0, None))[3]} if nrow_ok <= 1 else None)
    for kind, lo, hi, prefix, row in rows:
        if kind == 'stride':
            al = row['alphabet'] or ''
            rep.check(len(set(al)) == len(al), 'Q4-stride-form', 'alphabet[%s@%#x]#distinct' % (prefix, lo), f_tail['file'], 'alphabet %r repeats a letter' % al, nontrivial=False)
    seen = collect('numeric_reg', 'to_string', 0)
    rep.floor('numeric registrations printed in numeric_reg', len(seen), len([r for r in rows if r[0] == 'numeric']))
    for bb, v in seen:
        sl = slope1(v[4]) if v[0] == 'I' else None
        rep.check(sl is not None and sl[0] == 1, 'Q4-numeric-form', 'numeric_reg#value[%s]' % (sl[1] if sl else '?'), fns['numeric_reg']['file'],
                  'the printed number is not address + constant: %s' % A.show_val(v))
    for kind, lo, hi, prefix, row in rows:
        if kind == 'numeric':
            tpl = row['template']
            pad = len(tpl) - len(tpl.rstrip('0'))
            top = row['first'] + (hi - lo)
            rep.check(len(str(top)) <= pad, 'Q4-numeric-form', 'numeric[%s@%#x]#padding' % (prefix, lo), f_tail['file'],
                      'template %r has %d padding zeros but the largest number printed is %d' % (tpl, pad, top), sample={'template': tpl, 'largest': top})
    seen = collect('hl_reg', 'new_upper_hex', 0)
    rep.floor('values printed in hl_reg', len(seen), 3)
    ivs = []
    for bb, v in seen:
        sl = slope1(v[4]) if v[0] == 'I' else None
        rep.check(sl is not None and sl[0] == 1, 'Q4-hl-form', 'hl_reg#value[%s]' % (sl[1] if sl else '?'), fns['hl_reg']['file'],
                  'the printed value is not address + constant: %s' % A.show_val(v))
        if v[0] == 'I':
            ivs.append((v[1], v[2]))
    ivs.sort()
    for i in range(len(ivs) - 1):
        rep.check(ivs[i][1] < ivs[i + 1][0], 'Q4-hl-form', 'hl_reg#ranges[%x]' % ivs[i][0], fns['hl_reg']['file'],
                  'two arms of hl_reg print overlapping numbers: %x..%x and %x..%x' % (ivs[i] + ivs[i + 1]))
    for name in ('n_reg', 'ja_reg'):
        seen = [x for x in collect(name, 'to_string', 0, ('u32', 'usize', 'u64', 'u8', 'u16', 'i32')) if x[1][0] == 'I']
        seen += [x for x in collect(name, 'new_display', 0, ('u32', 'usize', 'u64', 'u8', 'u16', 'i32')) if x[1][0] == 'I']
        rep.floor('digits printed in ' + name, len(seen), 3)
        worst = None
        for bb, v in seen:
            if not (0 <= v[1] and v[2] <= 9):
                worst = v
        rep.check(worst is None, 'Q4-single-digits', name + '#digits', fns[name]['file'],
                  'a position of the %s numeral system can print %s, not a single digit: two addresses then share a registration (e.g. N10 = N1+0)' % (name, A.show_val(worst) if worst else ''),
                  sample={'fn': name, 'digit_positions': len(seen)})
    # quotient / remainder pairs of the numeral decoders: x -> (x / a, x % b) is a positional decomposition only for a = b
    divrem = {}
    for name in ('n_reg', 'ja_reg'):
        E5 = runner.make_engine(prog, K=8)

        def sh(E_, st, frame, bb, idx, stmt, v, divrem=divrem):
            rv = stmt['rv']
            if rv['k'] != 'bin' or rv['op'] not in ('Div', 'Rem') or 'data::tail::' not in frame.body['name']:
                return
            a = E_.scalar(st, E_.operand(st, frame, rv['l']))
            b_ = E_.scalar(st, E_.operand(st, frame, rv['r']))
            if a[0] == 'I' and b_[0] == 'I' and b_[1] == b_[2] and a[4] is not None and a[1] != a[2]:
                divrem.setdefault((frame.body['name'].split('::')[-1], a[4]), {}).setdefault(rv['op'], set()).add(b_[1])
        E5.stmt_hook = sh
        runner.run_entry(E5, fns[name], quiet=True)
    npairs = 0
    for (fn_, x), ops in sorted(divrem.items(), key=lambda kv: (kv[0][0], str(kv[0][1]))):
        if 'Div' in ops and 'Rem' in ops:
            npairs += 1
            rep.check(ops['Div'] == ops['Rem'] and len(ops['Div']) == 1, 'Q4-positional', '%s#div-rem[%s]' % (fn_, '/'.join(str(c_) for c_ in sorted(ops['Div'] | ops['Rem']))), f_tail['file'],
                      'in %s the same value is divided by %s and reduced modulo %s: (x / a, x %% b) with a != b maps different addresses to the same characters'
                      % (fn_, sorted(ops['Div']), sorted(ops['Rem'])), sample={'fn': fn_, 'radix': sorted(ops['Div'])} if npairs <= 3 else None)
    rep.floor('quotient / remainder pairs in the numeral decoders', npairs, 8)
    # ---- Q3
    rr = sorted(rows, key=lambda r: (r[1], r[2]))
    for i in range(len(rr) - 1):
        a, b_ = rr[i], rr[i + 1]
        rep.check(a[2] < b_[1], 'Q3-disjoint-ranges', 'ranges#%s@%#x|%s@%#x' % (a[0], a[1], b_[0], b_[1]), f_tail['file'],
                  'address ranges overlap: %s %#x..%#x and %s %#x..%#x (the first one in tail() order shadows the other)' % (a[0], a[1], a[2], b_[0], b_[1], b_[2]),
                  nontrivial=True)
    by_prefix = {}
    for r in rows:
        by_prefix.setdefault(r[3], []).append(r)
    ps = sorted(by_prefix)
    for i, p in enumerate(ps):
        for q in ps[i + 1:]:
            if all(r[0] == 'stride' for r in by_prefix[p] + by_prefix[q]):
                continue            # prefix + exactly three letters: different prefixes give different strings
            rep.check(not (p.startswith(q) or q.startswith(p)), 'Q3-distinct-prefixes', 'prefix#%s|%s' % (p, q), f_tail['file'],
                      'registration prefixes %r and %r are prefixes of one another' % (p, q), nontrivial=False)
    for p, lst in sorted(by_prefix.items()):
        st_rows = [r for r in lst if r[0] == 'stride']
        if len(st_rows) < 2:
            continue
        seen = {}
        for r in st_rows:
            row = r[4]
            al = row['alphabet']
            if None in (al, row['offset'], row['s1'], row['s2']):
                continue            # reported by Q2-rows
            for off in range(row['offset'], row['offset'] + (row['end'] - row['start']) + 1):
                i1, rem = divmod(off, row['s1'])
                i2, i3 = divmod(rem, row['s2'])
                if i1 < len(al) and i2 < len(al) and i3 < len(al):
                    reg = al[i1] + al[i2] + al[i3]
                    if reg in seen and seen[reg] != r[1]:
                        rep.fail('Q3-same-prefix-letters', 'letters#%s' % p, f_tail['file'],
                                 'prefix %s: letters %s are produced by the rows starting at %#x and %#x' % (p, reg, seen[reg], r[1]))
                        break
                    seen[reg] = r[1]
        rep.ok('Q3-same-prefix-letters', 'letters#%s#checked' % p, True, {'prefix': p, 'rows': len(st_rows), 'registrations': len(seen)})
