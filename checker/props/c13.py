"""C13 - altitude and identity codes decode per the standard for every code.

P1  decode_id13: the guarded-OR table extracted from the branch facts is the Annex 10 bit
    permutation (C1 A1 C2 A2 C4 A4 . B1 D1 B2 D2 B4 D4 -> four octal digits A B C D); the
    result's known-zero bits cover ~0x7777.
P2  gray2alt: the guarded-XOR table of the 500-ft counter is the reflected-Gray prefix-mask
    table in the order D2 D4 A1 A2 A4 B1 B2 B4; per class of the C bits (8 classes, fixed by
    pre-facts) x parity of the 500-ft counter, the returned term is 5*F + d - 13 with d the
    standard's 100-ft digit (reversed in odd blocks); classes 000/101/111 only return Err;
    results are >= 0.
P3  AC13Field::read / decode_ac12: on the Q path the result is 25*N - 1000 with N the code minus
    the Q (and M) bits, under N >= 41; on the Gillham path decode_id13 is applied to the code with
    the M bit re-inserted; no integer cast below these entries changes a value (lossy cast rule).
"""
import absint as A
import runner
import terms
from absint import T, mk_int
from props import util

ID13 = {0x1000: 0x0010, 0x0800: 0x1000, 0x0400: 0x0020, 0x0200: 0x2000, 0x0100: 0x0040, 0x0080: 0x4000,
        0x0020: 0x0100, 0x0010: 0x0001, 0x0008: 0x0200, 0x0004: 0x0002, 0x0002: 0x0400, 0x0001: 0x0004}
# gray2alt works on the output of decode_id13: A = 0x7000, B = 0x0700, C = 0x0070, D = 0x0007
GRAY_500 = [0x0002, 0x0004, 0x1000, 0x2000, 0x4000, 0x0100, 0x0200, 0x0400]      # D2 D4 A1 A2 A4 B1 B2 B4 (msb first)
C_BITS = {'C1': 0x0010, 'C2': 0x0020, 'C4': 0x0040}
# 100-ft digit by (C1, C2, C4) in an even 500-ft block (ICAO Annex 10 vol IV, Gillham code)
C_DIGIT = {(0, 0, 1): 1, (0, 1, 1): 2, (0, 1, 0): 3, (1, 1, 0): 4, (1, 0, 0): 5}


def guards_at(states_facts, kinds=('Ne',)):
    """facts of the form  (x & M) != 0  common to all states reaching a site -> set of M"""
    common = None
    for facts in states_facts:
        ms = set()
        for f in facts:
            if f[0] in kinds and f[2] == ('c', 0) and f[1][0] == 'BitAnd' and f[1][2][0] == 'c':
                ms.add(f[1][2][1])
        common = ms if common is None else common & ms
    return common or set()


def extract_guarded_ops(prog, E, body, arg):
    """[(op, constant, target local, {guard masks})] for every `x = x op const` in the body"""
    sites = {}

    root = body['name']

    def hook(E_, st, frame, bb, idx, stmt, v):
        # the function itself, or a closure of it (a table-driven rewrite folds over (mask, bit) pairs)
        if frame.depth != 0 and not (frame.body['name'].startswith(root + '::{closure') or frame.body['crate'] == body['crate']):
            return          # the function itself, its closures, or a workspace helper it calls
        rv = stmt['rv']
        if rv['k'] == 'bin' and rv['op'] in ('BitOr', 'BitXor'):
            kval = None
            if rv['r']['k'] == 'const' and 'int' in rv['r']['v']:
                kval = int(rv['r']['v']['int'])
            elif frame.depth != 0 and frame.body['name'].startswith(root + '::{closure'):
                for side in ('r', 'l'):
                    x = E_.scalar(st, E_.operand(st, frame, rv[side]))
                    if x[0] == 'I' and x[1] == x[2]:
                        kval = x[1]
                        break
            if kval is None:
                return
            key = (frame.body['name'], bb, idx, kval if frame.depth != 0 else None)
            s = sites.setdefault(key, {'op': rv['op'], 'k': kval, 'target': (stmt['pl']['l'] if frame.depth == 0 else (frame.body['name'], stmt['pl']['l'])), 'facts': [], 'sp': stmt.get('sp')})
            s['facts'].append(st.facts)
    def chook(E_, frame, bb, t, sts, c):
        # `acc | bit` on references is a call of <u16 as BitOr<&u16>>::bitor
        if c.get('item') not in ('bitor', 'bitxor') or not frame.body['name'].startswith(root + '::{closure'):
            return
        for st in sts:
            kval = None
            for a_ in t['args']:
                x = E_.operand(st, frame, a_)
                x = st.resolve(E_.expand(x))
                if x != A.BOT and x[0] == 'R':
                    import models
                    x = models.deref(E_, st, x)
                x = E_.scalar(st, x)
                if x[0] == 'I' and x[1] == x[2]:
                    kval = x[1]
            if kval is None:
                continue
            key = (frame.body['name'], bb, 'call', kval)
            s = sites.setdefault(key, {'op': 'BitOr' if c['item'] == 'bitor' else 'BitXor', 'k': kval, 'target': t['dest']['l'], 'facts': [], 'sp': t.get('sp')})
            s['facts'].append(st.facts)
    E.stmt_hook = hook
    E.call_hook = chook
    rets = runner.run_entry(E, body, [arg])
    E.stmt_hook = None
    E.call_hook = None
    out = []
    for key in sorted(sites, key=str):
        s = sites[key]
        out.append((s['op'], s['k'], s['target'], guards_at(s['facts']), s['sp']))
    return out, rets


def run(prog, rep, tier):
    rep.explanation = ('Guarded-operation tables are extracted from the branch facts of the abstract interpreter and compared with the '
                       'standard\'s tables; result terms are normalised (affine form over a bit expression, bit provenance map) per input '
                       'class and compared with the standard\'s formula; every value-changing integer cast is an obligation.')
    rep.trusted = ['rustc MIR', 'checker/absint.py', 'checker/terms.py normalisers', 'ICAO Annex 10 vol IV tables transcribed in checker/props/c13.py']
    f_id = util.find_fn(prog, 'decode::decode_id13', crate='rs1090')
    f_gray = util.find_fn(prog, 'decode::gray2alt', crate='rs1090')
    f_ac13 = util.find_fn(prog, 'decode::AC13Field::read', crate='rs1090')
    f_ac12 = util.find_fn(prog, 'decode::bds::bds05::decode_ac12', crate='rs1090')
    for nm, b in (('decode_id13', f_id), ('gray2alt', f_gray), ('AC13Field::read', f_ac13), ('decode_ac12', f_ac12)):
        if b is None:
            rep.missing(nm)
    if None in (f_id, f_gray, f_ac13, f_ac12):
        return
    # ---- P1
    E = runner.make_engine(prog, K=8)
    pt = T('o', ('p', 'id13'))
    ops, rets = extract_guarded_ops(prog, E, f_id, E.reg(mk_int(0, 0xFFFF, 0, pt)))
    site = '%s:%s' % (f_id['file'], f_id['line'])
    table = {}
    for op, k, tgt, gs, sp in ops:
        ok = op == 'BitOr' and len(gs) == 1
        rep.check(ok, 'P1-id13-permutation', 'decode_id13#op@K=%#06x' % k, '%s:%s' % (f_id['file'], sp),
                  'operation %s %#x is guarded by %s (expected exactly one mask, OR)' % (op, k, sorted(map(hex, gs))))
        if ok:
            table[next(iter(gs))] = k
    rep.floor('guarded ORs in decode_id13', len(ops), 12)
    for m, k in sorted(ID13.items()):
        rep.check(table.get(m) == k, 'P1-id13-permutation', 'decode_id13#bit-%#06x' % m, site,
                  'input bit %#06x maps to %s, the standard says %#06x' % (m, hex(table[m]) if m in table else 'nothing', k),
                  sample={'in_bit': hex(m), 'out_bit': hex(k)} if m in (0x1000, 0x0001) else None)
    extra = sorted(m for m in set(table) - set(ID13) if table[m] != 0)      # OR with 0 is no mapping
    rep.check(not extra, 'P1-id13-permutation', 'decode_id13#no-extra-bits', site, 'input bits %s are also mapped (bit 6 = X/M must be dropped)' % [hex(x) for x in extra])
    for st, v in rets:
        r = E.scalar(st, v)
        known_zero = r[0] == 'I' and ((~r[3]) & 0xFFFF & ~0x7777) == 0
        rep.check(known_zero, 'P1-four-octal-digits', 'decode_id13#result-mask', site, 'result may have bits outside 0x7777: %s' % A.show_val(r),
                  sample={'result_possible_bits': hex((~r[3]) & 0xFFFF)} if r[0] == 'I' else None)
    n1 = rep.absorb_engine(E, rule='P1-no-panic')
    # ---- P2 table of the 500-ft counter
    E = runner.make_engine(prog, K=8)
    pg = T('o', ('p', 'gray'))
    ops, rets = extract_guarded_ops(prog, E, f_gray, E.reg(mk_int(0, 0xFFFF, 0, pg)))
    site = '%s:%s' % (f_gray['file'], f_gray['line'])
    by_target = {}
    for op, k, tgt, gs, sp in ops:
        if op != 'BitXor':
            continue
        # the entry validity check contributes facts of the form (gray & 0x00f0) != 0: keep single-bit guards
        single = set(g for g in gs if g & (g - 1) == 0)
        by_target.setdefault(tgt, []).append((single, k, sp))
    groups = {}
    for tgt, lst in by_target.items():
        groups[tgt] = set((next(iter(g)), k) for g, k, sp in lst if len(g) == 1)
    want500 = set((m, (1 << (8 - i)) - 1) for i, m in enumerate(GRAY_500))
    want100 = set([(C_BITS['C1'], 7), (C_BITS['C2'], 3), (C_BITS['C4'], 1)])
    t500 = [t for t, g in groups.items() if g == want500]
    t100 = [t for t, g in groups.items() if want100 <= g and all(m in (0x10, 0x20, 0x40) for m, _ in g)]
    shown = {t: sorted((hex(m), hex(k)) for m, k in g) for t, g in groups.items()}
    rep.check(len(t500) == 1, 'P2-gray-500ft', 'gray2alt#500ft-mask-table', site,
              'no counter is updated with exactly the reflected-Gray prefix masks D2 D4 A1 A2 A4 B1 B2 B4 -> ff 7f 3f 1f 0f 07 03 01; found %s' % shown,
              sample={'mask_table': {hex(k): hex(v) for k, v in sorted(want500)}})
    rep.check(len(t100) == 1, 'P2-gray-100ft', 'gray2alt#100ft-mask-table', site,
              'no counter is updated with C1 C2 C4 -> 7 3 1; found %s' % shown)
    part = set(t100)
    rep.absorb_engine(E, rule='P2-no-panic')
    # ---- P2 per C class
    for c1 in (0, 1):
        for c2 in (0, 1):
            for c4 in (0, 1):
                E = runner.make_engine(prog, K=1)
                # the 100-ft counter is a trace partition (it is a constant per class and parity); when it is
                # computed in a helper the local that receives the helper's result plays that role
                E.partitions[f_gray['name']] = set(x for x in part if isinstance(x, int)) | {'one_hundreds'}
                for x in part:
                    if isinstance(x, tuple):
                        E.partitions[x[0]] = {x[1]}
                arg = E.reg(mk_int(0, 0xFFFF, 0, pg))

                def pre(E_, st, fr, bits=((c1, 0x10), (c2, 0x20), (c4, 0x40))):
                    for b, m in bits:
                        tm = T('BitAnd', pg, T('c', m))
                        E_.reg(mk_int(0, m, 0, tm))
                        E_.assume_cmp(st, 'Ne' if b else 'Eq', tm, T('c', 0))
                        if b:
                            st.rf[tm] = (m, m, 0)
                    # bit 7 is one of the must-be-zero bits
                    tm = T('BitAnd', pg, T('c', 0x8889))
                forms = set()

                def ok_hook(E_, st, frame, bb, idx, stmt, v, forms=forms):
                    # the Ok(..) construction sites of gray2alt: facts are still those of the path
                    if frame.depth != 0 or stmt['rv']['k'] != 'agg' or stmt['rv']['ak']['k'] != 'adt' or stmt['rv']['ak']['variant'] != 0:
                        return
                    if not prog.types[stmt['rv']['ak']['ty']]['name'].endswith('result::Result') or not stmt['rv']['ops']:
                        return
                    x = E_.scalar(st, E_.operand(st, frame, stmt['rv']['ops'][0]))
                    if x[0] != 'I':
                        forms.add(('not-an-integer', 0, 0, False))
                        return
                    try:
                        a, c, n = terms.affine_over(x[4])
                        par = None
                        for f in st.facts:
                            if f[1] == T('BitAnd', n, T('c', 1)) and f[2] == ('c', 0):
                                par = 1 if f[0] == 'Ne' else 0
                        forms.add((par, a, c, x[1] >= 0))
                    except terms.NotNormal as e:
                        forms.add(('not-normal', str(e), A.show_val(x), False))
                E.stmt_hook = ok_hook
                rets = runner.run_entry(E, f_gray, [arg], pre=pre)
                rep.absorb_engine(E, rule='P2-no-panic')
                key = 'gray2alt#C=%d%d%d' % (c1, c2, c4)
                d = C_DIGIT.get((c1, c2, c4))
                if d is None:
                    rep.check(not forms, 'P2-gray-100ft', key, site, 'illegal C bits %d%d%d yield an altitude: %s' % (c1, c2, c4, sorted(map(str, forms))),
                              sample={'C1C2C4': '%d%d%d' % (c1, c2, c4), 'result': 'Err only'})
                else:
                    want = {(0, 5, d - 13, True), (1, 5, 6 - d - 13, True)}
                    if d == 6 - d:
                        # both parities give the same digit: the two paths may legitimately be merged
                        forms = set((p if p is not None else q, a, c, nn) for (p, a, c, nn) in forms for q in ((0, 1) if p is None else (p,)))
                    rep.check(forms == want, 'P2-gray-100ft', key, site,
                              'C bits %d%d%d: result forms (parity, a, c, nonneg) = %s, standard gives %s' % (c1, c2, c4, sorted(map(str, forms)), sorted(want)),
                              sample={'C1C2C4': '%d%d%d' % (c1, c2, c4), 'result': '5*F + %d - 13 (even F), 5*F + %d - 13 (odd F)' % (d, 6 - d)})
    # ---- P3
    casts = []
    for label, body, width, has_m in (('AC13Field::read', f_ac13, 13, True), ('decode_ac12', f_ac12, 12, False)):
        E = runner.make_engine(prog, K=16)
        E.cast_events = []
        id13_args = []

        def call_hook(E_, frame, b, t, sts, c, id13_args=id13_args):
            if (c.get('rdid') or '') == f_id['id']:
                for st in sts:
                    id13_args.append((E_.scalar(st, E_.operand(st, frame, t['args'][0])), st))
        E.call_hook = call_hook
        E.hooks[f_gray['id']] = GrayResult()
        E.split_unwrap_or = True
        rets = runner.run_entry(E, body)
        rep.absorb_engine(E, rule='P3-no-panic')
        gillham_result(rep, E, rets, label, '%s:%s' % (body['file'], body['line']))
        site = '%s:%s' % (body['file'], body['line'])
        casts += [(label,) + ev for ev in E.cast_events]
        # Q path: affine results
        qforms = []
        for st, v in rets:
            r = st.resolve(E.expand(v))
            if r == A.BOT or r[0] != 'E':
                continue
            vs = dict(r[2])
            if 0 not in vs:
                continue
            x = E.expand(vs[0][0])
            if x[0] == 'E':          # Option<u16>
                xs = dict(st.resolve(x)[2])
                if 1 not in xs:
                    continue
                x = xs[1][0]
            x = E.scalar(st, x)
            if x[0] != 'I' or x[4] is None or x[4][0] == 'c':
                continue
            try:
                a, c, n = terms.affine_over(x[4])
                if a == 25:
                    bf, atom = terms.bit_form(n)
                    ni = E.ival(st, n)
                    qforms.append((a, c, tuple(sorted(bf.items())), ni[0] if ni else None, x[1]))
            except terms.NotNormal:
                continue
        # the 11-bit N: the code with Q (bit 4) and, for the 13-bit field, M (bit 6) removed
        if has_m:
            want_bits = {k: (k if k < 4 else (k + 1 if k == 4 else k + 2)) for k in range(11)}
        else:
            want_bits = {k: (k if k < 4 else k + 1) for k in range(11)}
        want = (25, -1000, tuple(sorted(want_bits.items())))
        rep.check(bool(qforms) and all(q[:3] == want for q in qforms), 'P3-q-path', label + '#25N-1000', site,
                  '25-ft path: result forms %s; the standard gives 25*N - 1000 with N = code minus %s' % (qforms[:2], 'M and Q' if has_m else 'Q'),
                  sample={'entry': label, 'form': '25*N - 1000', 'N_bits_from_code_bits': want_bits})
        rep.check(bool(qforms) and all(q[3] == 41 for q in qforms), 'P3-q-path', label + '#threshold', site,
                  '25-ft path is taken for N >= %s; expected N >= 41 (the first code above 0 ft)' % ([q[3] for q in qforms],))
        # Gillham path: argument of decode_id13
        ok = bool(id13_args)
        detail = 'decode_id13 is not called'
        for x, st in id13_args:
            try:
                bf, atom = terms.bit_form(x[4], 16) if x[4] is not None and x[4][0] != 'c' else ({}, None)
            except terms.NotNormal as e:
                ok = False
                detail = 'argument of decode_id13 is not a bit expression of the code: %s' % e
                continue
            if has_m:
                wantb = {k: k for k in range(13)}
                bf = {k: v for k, v in bf.items() if k < 13}
            else:
                wantb = {k: (k if k < 6 else k - 1) for k in range(13) if k != 6}
            if bf != wantb:
                ok = False
                detail = 'decode_id13 is applied to bits %s of the code; expected %s' % (bf, wantb)
        rep.check(ok, 'P3-gillham-path', label + '#id13-argument', site, detail,
                  sample={'entry': label, 'decode_id13_argument': 'the 13-bit code' if has_m else 'the 12-bit code with M = 0 re-inserted at bit 6'})
    rep.floor('integer casts examined', len(casts), 3)
    seen = set()
    for label, fn, csite, (lo, hi), dty, path, _term in casts:
        ty = next(t for t in prog.types if t and t['s'] == dty)
        tlo, thi = A.int_range(ty)
        key = '%s#cast-to-%s' % (fn, dty)
        if (key, lo, hi) in seen:
            continue
        seen.add((key, lo, hi))
        rep.check(tlo <= lo and hi <= thi, 'P3-lossy-cast', key, csite,
                  'cast to %s of a value in [%d, %d] changes it (below %s)' % (dty, lo, hi, label),
                  sample={'cast_to': dty, 'source_range': [lo, hi], 'in': fn} if hi > 255 else None)


class GrayResult:
    """exit hook of gray2alt: the value it returns is given a fresh atom as its term and that atom is remembered as a tag of
    the state (states with different tags are never merged), so the caller's return states know which value they were
    computed from - whatever the body of gray2alt and of decode_id13 look like"""

    def __init__(self):
        self.n = 0

    def exit(self, E_, nf, rets):
        for i, (st, v) in enumerate(rets):
            v = st.resolve(E_.expand(v))
            if v == A.BOT or v[0] != 'E':
                continue
            out = []
            for vi, fs in v[2]:
                if vi == 0 and fs:
                    x = E_.scalar(st, fs[0])
                    if x[0] == 'I':
                        self.n += 1
                        atom = A.T('o', ('gray2alt', self.n))
                        fs = (E_.reg(mk_int(x[1], x[2], 0, atom)),) + tuple(fs[1:])
                        st.tags = frozenset(set(st.tags) | {('G', atom)})
                out.append((vi, fs))
            rets[i] = (st, ('E', v[1], tuple(out)))


def _lin(t):
    """integer term -> {atom: coefficient, None: constant}; NotNormal for anything that is not linear"""
    if t is None:
        raise terms.NotNormal('no term')
    if t[0] == 'c':
        if not isinstance(t[1], int):
            raise terms.NotNormal('float constant')
        return {None: t[1]}
    if t[0] in ('Add', 'Sub') and len(t) == 3:
        a, b = _lin(t[1]), _lin(t[2])
        out = dict(a)
        for k, v in b.items():
            out[k] = out.get(k, 0) + (v if t[0] == 'Add' else -v)
        return {k: v for k, v in out.items() if v != 0 or k is None}
    if t[0] == 'Mul' and len(t) == 3:
        a, b = _lin(t[1]), _lin(t[2])
        if set(a) <= {None}:
            return {k: v * a.get(None, 0) for k, v in b.items()}
        if set(b) <= {None}:
            return {k: v * b.get(None, 0) for k, v in a.items()}
        raise terms.NotNormal('non-linear product')
    if t[0] == 'trunc':
        return _lin(t[1])
    if t[0] in ('j', 'o', 'bits'):
        return {t: 1}
    raise terms.NotNormal('operator %s' % (t[0],))


def gillham_result(rep, E, rets, label, site):
    """P3-gillham-result: on the 100-ft path the reported altitude is exactly 100 x the value gray2alt returned - or the
    unavailable marker (None / 0); never a clamped, truncated or rescaled value"""
    n = 0
    bad = []
    for st, v in rets:
        gs = [tg[1] for tg in st.tags if tg[0] == 'G']
        if not gs:
            continue
        r = st.resolve(E.expand(v))
        if r == A.BOT or r[0] != 'E':
            continue
        vs = dict(r[2])
        if 0 not in vs:
            continue
        x = E.expand(vs[0][0])
        if x[0] == 'E':
            xs = dict(st.resolve(x)[2])
            if 1 not in xs:
                continue
            x = xs[1][0]
        x = E.scalar(st, x)
        if x[0] != 'I':
            continue
        if x[1] == 0 and x[2] == 0:
            continue                      # the unavailable marker of the 13-bit field
        n += 1
        ok = False
        why = 'no symbolic form'
        try:
            lx = _lin(x[4])
            for g in gs:
                lg = _lin(g)
                if {k: 100 * c for k, c in lg.items() if c or k is None} == {k: c for k, c in lx.items() if c or k is None} or \
                        ({k: 100 * c for k, c in lg.items() if c} == {k: c for k, c in lx.items() if c} and 100 * lg.get(None, 0) == lx.get(None, 0)):
                    ok = True
            if not ok:
                why = 'it is %s while gray2alt returned %s' % (lx, [_lin(g) for g in gs][:1])
        except terms.NotNormal as e:
            why = 'the reported value is not a linear function of the gray2alt result (%s): %s' % (e, str(x[4])[:160])
        if not ok:
            bad.append((why, x[1], x[2]))
    rep.floor('Gillham return states of ' + label, n, 3)
    rep.check(not bad, 'P3-gillham-result', label + '#100-times-gray2alt', site,
              '100-ft path: a reported altitude in [%s, %s] is not 100 x the gray2alt value: %s' % (bad[0][1] if bad else '', bad[0][2] if bad else '', bad[0][0] if bad else ''),
              sample={'entry': label, 'gillham_return_states': n, 'form': '100 * gray2alt(decode_id13(code))'})
