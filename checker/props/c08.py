"""C08 - decoded quantities stay in their physical range for every accepted frame.

R1  at every construction site of the structs listed in spec/ranges.json that is reachable from
    Message::try_from (arbitrary bytes), the abstract value of each listed field is inside its
    physical range (the Some payload for Option fields), a multiple of the stated step, inside the
    stated bit mask.
R2  every f32 / f64 field of every struct / enum payload constructed below Message::try_from in
    the decode module is NaN-free and finite.
R3  both 6-bit character tables contain only the characters of the Annex 10 subset ("#" marks an
    invalid code), and every index into them is a 6-bit value (C01 obligation, re-read here).
"""
import json
import os

import absint as A
import runner
import terms
from props import util

SPEC = os.path.join(os.path.dirname(os.path.dirname(os.path.dirname(os.path.abspath(__file__)))), 'spec', 'ranges.json')
INF = float('inf')
# readers that only dispatch to other readers (their own aggregates hold no number)
DISPATCHERS = ('decode::Message', 'decode::DF', 'decode::adsb::ADSB', 'decode::adsb::ME', 'decode::ControlField',
               'decode::commb::DF20DataSelector', 'decode::commb::DF21DataSelector')


def payloads(E, st, v, depth=0):
    """scalar leaves of a field value: direct scalar, Some(scalar), newtype(scalar)"""
    v = E.expand(v) if v[0] == 'T' else v
    if v[0] in ('I', 'F'):
        return [E.scalar(st, v)], False
    if v[0] == 'E' and depth < 3:
        r = st.resolve(v)
        if r == A.BOT:
            return [], False
        out = []
        has_none = False
        for vi, fs in r[2]:
            if not fs:
                has_none = True
                continue
            sub, _ = payloads(E, st, fs[0], depth + 1)
            if sub is None:
                return None, False
            out += sub
        return out, has_none
    if v[0] == 'A' and len(v[1]) == 1 and depth < 3:
        return payloads(E, st, v[1][0], depth + 1)
    return None, False


def run(prog, rep, tier, only=None):
    K = 8 if tier == 'quick' else 16
    rep.explanation = ('One abstract interpretation of Message::try_from over arbitrary bytes; at each Aggregate statement that builds a '
                       'listed struct the interval / known-bits / divisibility of every listed field is compared with its physical range; '
                       'every float stored in any decode-module value is checked to be finite.')
    rep.trusted = ['rustc MIR', 'checker/absint.py float intervals (outward rounding) and libm models (atan2 in [-pi, pi], hypot >= 0, floor/round monotone)',
                   'deku read contracts', 'spec/ranges.json transcribes the property text']
    with open(SPEC) as fh:
        spec = {k: v for k, v in json.load(fh).items() if not k.startswith('_')}
    # every derived / hand-written deku reader of a decode type is analysed on its own, reading from
    # an arbitrary stream with arbitrary context arguments (an over-approximation of every context it
    # is reached in from Message::try_from); the aggregates it builds are inspected
    readers = [b for b in prog.bodies.values() if b['kind'] == 'fn' and b['item'] == 'from_reader_with_ctx' and b['crate'] == 'rs1090'
               and b.get('impl') and (b['impl'].get('self') or '').startswith('decode::') and not (b['impl'].get('self') or '').startswith('decode::flarm')
               and (b['impl'].get('self') or '') not in DISPATCHERS]
    rep.floor('deku readers of decode types', len(readers), 60)
    seen = {}        # (type, field) -> [ (scalar, site) ]
    floats = {}      # (type, field) -> worst (lo, hi, nan, site)
    nagg = [0]
    built_in = {}    # type name -> set of functions with an aggregate of it

    def hook(E_, st, frame, b, idx, stmt, v):
        rv = stmt['rv']
        if frame.depth != 0 or rv['k'] != 'agg' or rv['ak']['k'] != 'adt':
            return          # nested readers are analysed on their own (with fewer merged states)
        ty = prog.types[rv['ak']['ty']]
        name = ty['name']
        if not name.startswith('decode::'):
            return
        nagg[0] += 1
        var = ty['variants'][rv['ak']['variant']]
        site = '%s:%s' % (frame.body['file'], stmt.get('sp'))
        for fi, (f, o) in enumerate(zip(var['fields'], rv['ops'])):
            val = E_.operand(st, frame, o)
            leaves, has_none = payloads(E_, st, val)
            if leaves is None:
                continue
            fkey = (name + ('::' + var['name'] if ty['ak'] == 'enum' else ''), f['name'])
            for x in leaves:
                if x[0] == 'F' and x[4] is not None:
                    # reduced product with the symbolic term: re-evaluate from refined atoms
                    ev = E_.eval_term(st, x[4])
                    if ev is not None and ev[0] == 'F':
                        x = ('F', max(x[1], ev[1]), min(x[2], ev[2]), x[3] and ev[3], x[4])
                if x[0] == 'F':
                    cur = floats.get(fkey)
                    lo, hi, nan = x[1], x[2], x[3] or x[1] > x[2]
                    if cur is None:
                        floats[fkey] = [lo, hi, nan, site]
                    else:
                        cur[0], cur[1], cur[2] = min(cur[0], lo), max(cur[1], hi), cur[2] or nan
                if name in spec and f['name'] in spec[name]:
                    seen.setdefault((name, f['name']), []).append((x, site))
    cell = ('o', ('p', 'reader'))
    for rb in sorted(readers, key=lambda b: b['id']):
        E = runner.make_engine(prog, K=16 if tier == 'quick' else 32)
        E.stmt_hook = hook

        def pre(E_, st, fr):
            st.cells[cell] = util.synthetic_reader(E_)
        try:
            runner.run_entry(E, rb, [('R', cell, (), True)] + [None] * (rb['argc'] - 1), pre=pre, quiet=True)
        except A.AnalysisError as e:
            rep.fail('R1-physical-range', 'analysis#' + rb['name'], rb['file'], 'analysis of %s did not finish: %s' % (rb['name'], e))
    # the listed structs are only built by their readers (so the standalone analysis covers every value)
    for b2 in prog.bodies.values():
        if b2['crate'] != 'rs1090':
            continue
        for bb in b2['blocks']:
            for s2 in bb['s']:
                if s2['k'] == 'assign' and s2['rv']['k'] == 'agg' and s2['rv']['ak']['k'] == 'adt':
                    tn = prog.types[s2['rv']['ak']['ty']]['name']
                    if tn in spec:
                        built_in.setdefault(tn, set()).add(b2['name'])
    for tn, fns in sorted(built_in.items()):
        others = sorted(f for f in fns if 'from_reader_with_ctx' not in f and not f.endswith('::read') and '::clone' not in f and 'Clone' not in f)
        rep.check(not others, 'R1-physical-range', 'built-only-by-reader#' + tn.split('::')[-1], '-',
                  '%s is also constructed outside its deku reader: %s' % (tn, others), nontrivial=False)
    rep.floor('aggregates of decode types examined', nagg[0], 100)
    # ---- R1
    for tname, fields in sorted(spec.items()):
        for fname, c in sorted(fields.items()):
            obs = seen.get((tname, fname), [])
            key = '%s.%s' % (tname.split('::')[-1], fname)
            if not obs:
                rep.missing('construction site of %s.%s' % (tname, fname), '(no reachable aggregate writes this field)')
                continue
            for x, site in obs:
                ok = True
                why = []
                if 'range' in c:
                    lo, hi = c['range']
                    if x[0] == 'F' and (x[3] or x[1] > x[2]):
                        ok = False
                        why.append('may be NaN')
                    if not (x[1] >= lo and x[2] <= hi):
                        ok = False
                        why.append('interval [%r, %r] not within [%r, %r]' % (x[1], x[2], lo, hi))
                    if c.get('open_hi') and not x[2] < hi:
                        ok = False
                        why.append('upper end %r reaches %r (must stay below)' % (x[2], hi))
                    if c.get('open_lo') and not x[1] > lo:
                        ok = False
                        why.append('lower end %r reaches %r (must stay above)' % (x[1], lo))
                if 'mult' in c:
                    d = terms.divisor(x[4]) if x[0] == 'I' else 1
                    if x[0] == 'I' and x[1] == x[2]:
                        d = abs(x[1])
                    if not (d == 0 or d % c['mult'] == 0):
                        ok = False
                        why.append('not shown to be a multiple of %d (known divisor %d)' % (c['mult'], d))
                if 'mask' in c:
                    m = c['mask']
                    if not (x[0] == 'I' and x[1] >= 0 and ((~x[3]) & ((1 << max(x[2].bit_length(), 1)) - 1) & ~m) == 0):
                        ok = False
                        why.append('bits outside %#x may be set' % m)
                rep.check(ok, 'R1-physical-range', key, site, '%s: %s' % (key, '; '.join(why)),
                          sample={'field': key, 'abstract_value': A.show_val(x)[:60], 'constraint': {k: v for k, v in c.items() if not k.startswith('note')}}
                          )
    # ---- R2
    rep.floor('float fields seen', len(floats), 20)
    for (tname, fname), (lo, hi, nan, site) in sorted(floats.items()):
        ok = not nan and lo > -INF and hi < INF
        rep.check(ok, 'R2-finite', '%s.%s#finite' % (tname.split('decode::')[-1], fname), site,
                  '%s.%s may be %s (interval [%r, %r])' % (tname, fname, 'NaN' if nan else 'infinite', lo, hi), nontrivial=True)
    if only == 'R2':
        return          # composed into C01 / C07: finiteness is the clause they share with this property
    # ---- R3
    allowed = set(b'ABCDEFGHIJKLMNOPQRSTUVWXYZ0123456789 #')
    tables = 0
    for b in prog.bodies.values():
        if b['crate'] != 'rs1090' or 'decode::bds' not in b['name']:
            continue
        for bb in b['blocks']:
            for s in bb['s']:
                if s['k'] == 'assign' and s['rv']['k'] == 'use' and s['rv']['op']['k'] == 'const':
                    ty = prog.types[s['rv']['op']['ty']]
                    tt = prog.types[ty['to']] if ty['k'] == 'ref' else ty
                    if tt['k'] == 'array' and tt.get('len') == 64 and prog.types[tt['elem']]['s'] == 'u8':
                        data = util.const_bytes_of_operand(prog, b, s['rv']['op'])
                        if data is not None and len(data) >= 64 and sum(1 for ch in data[:64] if ch in allowed) >= 58 and len(set(data[:64])) >= 30:
                            tables += 1
                            bad = sorted(set(data[:64]) - allowed)
                            want = b'#ABCDEFGHIJKLMNOPQRSTUVWXYZ##### ###############0123456789######'
                            rep.check(not bad and data[:64] == want, 'R3-character-set', 'CHAR_LOOKUP@%s' % b['name'].split('::')[-2 if b['kind'] == 'closure' else -1],
                                      '%s:%s' % (b['file'], s.get('sp')), 'the 6-bit character table differs from the Annex 10 subset: %r' % bytes(data[:64]),
                                      sample={'table': bytes(data[:64]).decode('ascii', 'replace')} if tables == 1 else None)
    # the character function itself (after seed C08-s10 replaced the table by a formula): every u8 -> char function or
    # closure below a callsign_read, evaluated on each of the 64 singleton codes, only yields characters of the set
    fns = 0
    for fb, table in util.char_functions(prog):
        fns += 1
        bad = {c_: sorted(chr(v) if isinstance(v, int) and 32 <= v < 127 else str(v) for v in vs) for c_, vs in table.items() if not all(isinstance(v, int) and v in allowed for v in vs)}
        rep.check(not bad, 'R3-character-set', 'char-function@%s' % fb['name'].split('::{closure')[0].split('::')[-1] + ('#closure' if fb['kind'] == 'closure' else ''),
                  '%s:%s' % (fb['file'], fb['line']), 'the character function yields characters outside the 6-bit set: %s' % dict(list(bad.items())[:8]),
                  sample={'character function codes evaluated': 64})
    rep.floor('6-bit character tables and character functions found', tables + fns, 2)
    rep.floor('character functions below callsign_read', fns, 1)
    n = 0
    for fn in ('decode::bds::bds08::callsign_read', 'decode::bds::bds21::aircraft_registration_read'):
        fb = util.find_fn(prog, fn, crate='rs1090')
        if fb is None:
            rep.missing(fn)
            continue
        E = runner.make_engine(prog, K=8)
        runner.run_entry(E, fb)
        n += rep.absorb_engine(E, rule='R3-index-in-range', keyfilter=lambda o: 'index' in o['kind'] or 'BoundsCheck' in o['kind'])
    rep.floor('character-table index obligations', n, 2)
    # the 13-bit altitude conversion (Gillham branch, cast to u16) and the squawk permutation are mechanisms of this
    # property too: C13's rules (permutation -> four octal digits, Gray tables, 25*N - 1000, no lossy cast) run here as well
    from props import c13
    c13.run(prog, util.Prefixed(rep, 'R4-altitude-identity/'), tier)
