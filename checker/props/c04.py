"""C04 - global CPR decoding (clause-limited, see DESIGN.md §7).

N1  the decision list of nl() extracted from the branch facts of every return path: 59 bands of
    |lat| -> 59..1 whose breakpoints equal the NL formula
    (180/pi)*acos(sqrt((1-cos(pi/30))/(1-cos(2*pi/NL)))), NL = 2..59, within 5.001e-9
    (the table's 8 decimals); 87 -> 1; exhaustive, monotone, same for both signs.
N2  every state at a Some(position) construction in airborne_position has one parity for the
    older and the other parity for the newer report.
N3  the returned latitude lies in [-90, 90] and is not NaN; panic obligations of
    airborne_position (incl. `nl(lat) - 1`).
N4  a position is only built under the guard NL(lat_even) = NL(lat_odd); the longitude is not NaN.
N5  the returned longitude lies in [-180, 180): `modulo(a, b)` has the normal form a - b*floor(a/b) (M0), hence
    for integer-valued a and an integer b >= 1 below 2^24 its result is an integer of [0, b-1]; with the states
    partitioned by the number of longitude zones (a constant per state, nl() inlined) the interval of
    (360/ni)*(m mod ni + cpr) stays below 360 and the final wrap gives [-180, 180).
Not decided: 10 m accuracy, "None only when the NL bands differ" (the converse of N4).
"""
import math

import absint as A
import runner
from absint import T, mk_int
from props import util

INF = float('inf')


def nl_break(k):
    """upper latitude limit of the band with NL = k (k = 2..59)"""
    a = 1 - math.cos(math.pi / 30)
    b = 1 - math.cos(2 * math.pi / k)
    return math.degrees(math.acos(math.sqrt(a / b)))


def run(prog, rep, tier, only=None):
    rep.explanation = ('nl() is only comparisons with constants: the abstract interpreter enumerates its return paths and the branch facts '
                       'of each give a (band -> NL) decision list, compared with the NL formula. airborne_position is analysed with '
                       'arbitrary reports (17-bit CPR fields): parity facts and the latitude interval are read at the Some(..) sites.')
    rep.trusted = ['rustc MIR', 'checker/absint.py (float intervals with outward rounding)', 'libm::floor model', 'math.acos/cos of the host python for the formula']
    f_nl = util.find_fn(prog, 'decode::cpr::nl', crate='rs1090')
    f_ap = util.find_fn(prog, 'decode::cpr::airborne_position', crate='rs1090')
    if f_nl is None:
        rep.missing('cpr::nl')
    if f_ap is None:
        rep.missing('cpr::airborne_position')
    if f_nl is None or f_ap is None:
        return
    # ---- N1
    E = runner.make_engine(prog, K=512)
    pt = T('o', ('p', 'lat'))
    rets = runner.run_entry(E, f_nl, [E.reg(('F', -INF, INF, False, pt))])
    rep.absorb_engine(E, rule='N1-no-panic')
    # NaN separately: every comparison is false
    En = runner.make_engine(prog, K=8)
    nrets = runner.run_entry(En, f_nl, [('F', INF, -INF, True, None)])
    nanvals = sorted(set(En.scalar(st, v)[1] for st, v in nrets if En.scalar(st, v)[0] == 'I'))
    rep.check(nanvals == [1], 'N1-nl-table', 'nl#nan-input', '%s:%s' % (f_nl['file'], f_nl['line']), 'nl(NaN) returns %s (expected the polar value 1)' % nanvals, nontrivial=False)
    site = '%s:%s' % (f_nl['file'], f_nl['line'])
    bands = {0: [], 1: []}        # sign -> [(lo, hi, value)]
    nanret = []
    for st, v in rets:
        r = E.scalar(st, v)
        if r[0] != 'I' or r[1] != r[2]:
            rep.fail('N1-nl-table', 'nl#constant-returns', site, 'a return path of nl() does not return a constant: %s' % A.show_val(r))
            continue
        # bounds carry closedness: (value, closed?)
        lo, hi = (0.0, True), (INF, False)
        neg = None
        other = False
        for f in st.facts:
            if f[0] not in ('Lt', 'Ge', 'Le', 'Gt') or f[2][0] != 'c':
                other = other or (f[0] in A.CMPS)
                continue
            tm, c = f[1], f[2][1]
            if tm == pt and c == 0.0 and f[0] in ('Lt', 'Ge'):
                neg = f[0] == 'Lt'
                continue
            if f[0] in ('Lt', 'Le'):
                cand = (c, f[0] == 'Le')
                if cand[0] < hi[0] or (cand[0] == hi[0] and not cand[1]):
                    hi = cand
            else:
                cand = (c, f[0] == 'Ge')
                if cand[0] > lo[0] or (cand[0] == lo[0] and not cand[1]):
                    lo = cand
        if other:
            rep.fail('N1-nl-table', 'nl#only-constant-comparisons', site, 'nl() branches on something else than `lat < constant`')
        if neg is None:
            nanret.append(r[1])
            continue
        bands[1 if neg else 0].append((lo, hi, r[1]))
    rep.floor('return paths of nl()', len(rets), 100)
    for sign in (0, 1):
        bl = sorted(b for b in bands[sign] if b[0][0] < b[1][0] or (b[0][0] == b[1][0] and b[0][1] and b[1][1]))
        name = 'negative' if sign else 'non-negative'
        vals = [b[2] for b in bl]
        ok = vals == list(range(59, 0, -1))
        rep.check(ok, 'N1-nl-table', 'nl#values-%s' % name, site, 'bands for %s latitudes return %s, expected 59..1' % (name, vals))
        cover = bool(bl) and bl[0][0] == (0.0, True) and bl[-1][1][0] == INF and all(
            bl[i][1][0] == bl[i + 1][0][0] and bl[i][1][1] != bl[i + 1][0][1] for i in range(len(bl) - 1))
        rep.check(cover, 'N1-nl-table', 'nl#exhaustive-%s' % name, site, 'bands for %s latitudes do not tile [0, inf)' % name)
        if not ok:
            continue
        for lo, hi, k in bl:
            if k == 1:
                # DO-260B A.1.7.2 d: NL = 2 at exactly 87 degrees, NL = 1 beyond
                rep.check(lo == (87.0, False), 'N1-nl-table', 'nl#break-%s-NL=1' % name, site,
                          'NL = 1 starts at %r (%s); the standard gives NL = 2 at exactly 87 and NL = 1 only beyond' % (lo[0], 'inclusive' if lo[1] else 'exclusive'),
                          nontrivial=True)
                continue
            hi = hi[0]
            want = nl_break(k) if k > 2 else 87.0
            err = abs(hi - want)
            rep.check(err <= 5.001e-9, 'N1-nl-table', 'nl#break-%s-NL=%d' % (name, k), site,
                      'upper limit of NL = %d is %.8f, the formula gives %.10f (off by %.3g)' % (k, hi, want, err),
                      sample={'NL': k, 'upper_limit': hi, 'formula': round(want, 10)} if k in (59, 30, 3) and not sign else None)
    rep.check(nanret == [1] or not nanret, 'N1-nl-table', 'nl#nan', site, 'paths without a sign fact (NaN) return %s' % nanret, nontrivial=False)
    if only == 'N1':
        return
    # ---- N2 / N3 / N4
    E = runner.make_engine(prog, K=16)
    apt = util.adt_type(prog, 'decode::bds::bds05::AirbornePosition')
    if apt is None:
        rep.missing('AirbornePosition type')
        return
    fidx = {f['name']: i for i, f in enumerate(apt['variants'][0]['fields'])}
    cprt = util.adt_type(prog, 'decode::cpr::CPRFormat')
    pname = {i: v['name'] for i, v in enumerate(cprt['variants'])}

    def mkmsg(E_, tag):
        vals = []
        for f in apt['variants'][0]['fields']:
            if f['name'] in ('lat_cpr', 'lon_cpr'):
                vals.append(E_.reg(mk_int(0, (1 << 17) - 1, 0, T('o', ('p', tag, f['name'])))))
            else:
                vals.append(('T', f['ty'], ('p', tag, f['name'])))
        return ('A', tuple(vals))
    c_old, c_new = ('o', ('p', 'oldest')), ('o', ('p', 'latest'))
    E.gc_roots.update((c_old, c_new))
    somes = []

    wraps = []

    def hook(E_, st, frame, bb, idx, stmt, v):
        rv = stmt['rv']
        if frame.depth == 0 and rv['k'] == 'bin' and rv['op'].startswith('Sub') and rv['r']['k'] == 'const' and v[0] == 'F' \
                and v[4] is not None and v[4][0] == 'Sub' and v[4][2] == ('c', 360.0):
            # N7: a coordinate is brought back by -360 only on a path that tested *that* coordinate
            t = v[4][1]
            own = any((f[0] in ('Ge', 'Gt') and f[1] == t and f[2][0] == 'c' and f[2][1] >= 180.0)
                      or (f[0] in ('Le', 'Lt') and f[2] == t and f[1][0] == 'c' and f[1][1] >= 180.0) for f in st.facts)
            wraps.append((own, stmt.get('sp'), A.show_term(t)[:80]))
            return
        if frame.depth != 0 or stmt['rv']['k'] != 'agg' or stmt['rv']['ak']['k'] != 'adt':
            return
        ty = prog.types[stmt['rv']['ak']['ty']]
        if ty['name'] == 'decode::cpr::Position':
            def par(cell):
                m = E_.expand(st.cells[cell])
                p = st.resolve(E_.expand(m[1][fidx['parity']]))
                return sorted(pname[i] for i, _ in p[2]) if p != A.BOT and p[0] == 'E' else None
            lat = E_.scalar(st, E_.operand(st, frame, stmt['rv']['ops'][0]))
            lon = E_.scalar(st, E_.operand(st, frame, stmt['rv']['ops'][1]))
            eqs = [(tg[2], tg[3]) for tg in st.tags if tg[0] == 'G']
            somes.append((par(c_old), par(c_new), lat, lon, stmt.get('sp'), eqs))
    E.stmt_hook = hook
    tokens = {}

    def token(t):
        if t not in tokens:
            tokens[t] = T('tok', len(tokens))
        return tokens[t]

    class NlHook:
        """nl() is summarised as the pure function it was shown to be in N1: equal argument terms
        give the same result term nl(<token of the argument>)"""
        def entry(self, E_, nf, ins):
            E_.gc_roots.add((nf.depth, 1))
            self.saved = [s_.copy() for s_ in ins]
            del ins[:]          # the body is not run here (nl() is analysed on its own by C04 rule N1)

        def exit(self, E_, nf, rets):
            # nl() is pure: the state after the call is the state before it, whatever paths its body has
            # (an if-chain, a table scanned with find, ..)
            new = []
            for st in self.saved:
                a = E_.scalar(st, st.cells[(nf.depth, 1)]) if (nf.depth, 1) in st.cells else None
                if a is not None and a[0] == 'F' and a[4] is not None:
                    new.append((st, E_.reg(mk_int(1, 59, 0, T('nl', token(a[4]))))))      # range shown by N1
                else:
                    new.append((st, mk_int(1, 59)))
            rets[:] = new
    E.hooks[f_nl['id']] = NlHook()
    # passing the guard nl(x) == nl(y), x != y, is remembered as a path tag (tags are intersected at
    # joins and states with different tags are never merged)
    orig_assume = E.assume

    def assume(st, t, truth):
        r = orig_assume(st, t, truth)
        if r and t is not None and t[0] in ('Ne', 'Eq') and len(t) == 3 and t[1][0] == 'nl' and t[2][0] == 'nl' and t[1] != t[2] \
                and (truth == (t[0] == 'Eq')):
            st.tags = st.tags | {('G', 'nl', t[1][1], t[2][1])}
        return r
    E.assume = assume

    def pre(E_, st, fr):
        st.cells[c_old] = mkmsg(E_, 'oldest')
        st.cells[c_new] = mkmsg(E_, 'latest')
    rets = runner.run_entry(E, f_ap, [('R', c_old, (), False), ('R', c_new, (), False)], pre=pre)
    n = rep.absorb_engine(E, rule='N3-no-panic')
    rep.floor('obligations in airborne_position', n, 2)
    rep.floor('Some(position) states', len(somes), 2)
    seen_pairs = set()
    for po, pn, lat, lon, sp, eqs in somes:
        site = '%s:%s' % (f_ap['file'], sp)
        okq = lat[0] == 'F' and lat[4] is not None and any(tokens.get(lat[4]) in e for e in eqs)
        rep.check(okq, 'N4-same-zone-band', 'airborne_position#some-needs-equal-NL', site,
                  'a position is produced on a path that did not pass the guard NL(returned latitude) = NL(the other parity\'s latitude) (guards passed: %d)' % len(eqs),
                  sample={'guard': 'NL(returned latitude) == NL(the other latitude)', 'guards_passed_on_path': len(eqs)})
        okn = lon[0] == 'F' and not lon[3]
        rep.check(okn, 'N3-longitude-not-nan', 'airborne_position#longitude-nan', site, 'returned longitude may be NaN: %s' % A.show_val(lon),
                  sample={'longitude_interval': [lon[1], lon[2]], 'nan': lon[3]} if lon[0] == 'F' else None)
        site = '%s:%s' % (f_ap['file'], sp)
        ok = po is not None and pn is not None and len(po) == 1 and len(pn) == 1 and po != pn
        rep.check(ok, 'N2-opposite-parity', 'airborne_position#some-needs-opposite-parity', site,
                  'a position is produced in a state with parities oldest=%s latest=%s' % (po, pn),
                  sample={'oldest': po, 'latest': pn})
        if ok:
            seen_pairs.add((po[0], pn[0]))
        okl = lat[0] == 'F' and not lat[3] and lat[1] >= -90.0 and lat[2] <= 90.0
        rep.check(okl, 'N3-latitude-range', 'airborne_position#latitude', site,
                  'returned latitude %s is not within [-90, 90] / may be NaN' % A.show_val(lat),
                  sample={'latitude_interval': [lat[1], lat[2]], 'nan': lat[3]} if lat[0] == 'F' else None)
    rep.check(seen_pairs == {('Even', 'Odd'), ('Odd', 'Even')}, 'N2-opposite-parity', 'airborne_position#both-orders', f_ap['file'],
              'positions are produced for parity orders %s; expected both (Even, Odd) and (Odd, Even)' % sorted(seen_pairs))
    # N7 (after seed C04-s11): every `x - 360` wrap in airborne_position is guarded by a test of x itself
    rep.floor('-360 wraps examined in airborne_position', len(wraps), 2)
    for k_, sp in enumerate(sorted(set(w[1] for w in wraps), key=lambda x: (len(str(x)), str(x)))):
        ws = [w for w in wraps if w[1] == sp]
        rep.check(all(w[0] for w in ws), 'N7-own-wrap', 'airborne_position#wrap#%d' % k_, '%s:%s' % (f_ap['file'], sp),
                  'a coordinate is reduced by 360 on a path that did not test that coordinate against a bound >= 180 (it may be below 270: the result '
                  'leaves [-90, 90] and the pair is rejected although both reports lie in one zone band)', sample={'wrap_states': len(ws)})
    n5_longitude(prog, rep, f_ap, mkmsg, c_old, c_new)


def n5_longitude(prog, rep, f_ap, mkmsg, c_old, c_new):
    f_mod = util.find_fn(prog, 'decode::cpr::modulo', crate='rs1090')
    if f_mod is None:
        rep.missing('decode::cpr::modulo')
        return
    # M0: normal form of modulo
    E0 = runner.make_engine(prog, K=4)
    ta, tb = T('o', ('p', 'a')), T('o', ('p', 'b'))
    rets = runner.run_entry(E0, f_mod, [E0.reg(('F', -1e12, 1e12, False, ta)), E0.reg(('F', 1.0, 64.0, False, tb))], quiet=True)
    want = A.mkterm('Sub', ta, A.mkterm('Mul', tb, A.mkterm('floor', A.mkterm('Div', ta, tb))))
    got = [E0.scalar(st, v)[4] for st, v in rets]
    rep.check(len(got) == 1 and got[0] == want, 'N5-longitude-range', 'modulo#normal-form', f_mod['file'],
              'modulo(a, b) is not a - b*floor(a/b): %s' % [A.show_term(g) if g else None for g in got], sample={'modulo': 'a - b*floor(a/b)'})
    if not (len(got) == 1 and got[0] == want):
        return
    f_nl = util.find_fn(prog, 'decode::cpr::nl', crate='rs1090')
    used = [0]
    lons = []
    mods = set()
    for k_nl in range(1, 60):
        _n5_pass(prog, f_ap, f_mod, f_nl, mkmsg, c_old, c_new, k_nl, used, lons, mods)
    # N6 (after seed C04-s10): the zone counts.  In the pass where every nl() call returns k, the constant divisors handed to
    # modulo() are the latitude zone counts 60 / 59 and the longitude zone count max(k - i, 1), i = 0 (even latest) or 1 (odd)
    bad6 = sorted((k_, d) for k_, d in mods if d not in (60, 59, max(k_, 1), max(k_ - 1, 1)))
    rep.check(not bad6, 'N6-zone-count', 'airborne_position#modulo-divisors', f_ap['file'],
              'with NL = %s the index is reduced modulo %s; the standard reduces modulo max(NL - i, 1) = %s (and the latitude index modulo 60 / 59)'
              % (bad6[0][0] if bad6 else '', bad6[0][1] if bad6 else '', sorted({max(bad6[0][0], 1), max(bad6[0][0] - 1, 1)}) if bad6 else ''),
              sample={'passes': 59, 'distinct (NL, divisor) pairs': len(mods), 'divisors at NL=1': sorted(d for k_, d in mods if k_ == 1)})
    rep.floor('(NL, modulo divisor) pairs seen', len(mods), 59 * 2)
    rep.floor('positions built (longitude pass)', len(lons), 59)
    rep.floor('modulo calls summarised on integral arguments', used[0], 59)
    lo = min((x[1] for x, _, _ in lons if x[0] == 'F'), default=None)
    hi = max((x[2] for x, _, _ in lons if x[0] == 'F'), default=None)
    bad = [(x, sp, k_) for x, sp, k_ in lons if not (x[0] == 'F' and not x[3] and x[1] >= -180.0 and x[2] < 180.0)]
    rep.check(not bad, 'N5-longitude-range', 'airborne_position#longitude-range', '%s:%s' % (f_ap['file'], bad[0][1] if bad else ''),
              'with NL = %s a returned longitude ranges over %s, not [-180, 180)' % (bad[0][2] if bad else '', A.show_val(bad[0][0]) if bad else ''),
              sample={'longitude interval over all NL and parities': [lo, hi], 'states': len(lons)})


def _n5_pass(prog, f_ap, f_mod, f_nl, mkmsg, c_old, c_new, k_nl, used, lons, mods):
    # all nl() calls of a state that builds a position return the same value (rule N4): that value is k_nl here
    E = runner.make_engine(prog, K=16)

    class NlConst:
        def entry(self, E_, nf, ins):
            self.saved = [s_.copy() for s_ in ins]
            del ins[:]          # the body is not run here (nl() is analysed on its own by C04 rule N1)

        def exit(self, E_, nf, rets_):
            rets_[:] = [(s_, A.const_int(k_nl)) for s_ in self.saved]       # pure function: pre-state kept
    E.hooks[f_nl['id']] = NlConst()

    class ModHook:
        def entry(self, E_, nf, ins):
            E_.gc_roots.add((nf.depth, 1))
            E_.gc_roots.add((nf.depth, 2))

        def exit(self, E_, nf, rets_):
            for i, (st, v) in enumerate(rets_):
                a = E_.scalar(st, st.cells[(nf.depth, 1)]) if (nf.depth, 1) in st.cells else None
                b = E_.scalar(st, st.cells[(nf.depth, 2)]) if (nf.depth, 2) in st.cells else None
                if a is None or b is None or a[0] != 'F' or b[0] != 'F':
                    continue
                integral_a = a[4] is not None and a[4][0] in ('floor', 'itof') and not a[3] and abs(a[1]) < 2 ** 24 and abs(a[2]) < 2 ** 24
                const_b = b[1] == b[2] and not b[3] and b[1] >= 1.0 and b[1] == int(b[1]) and b[1] < 2 ** 24
                if const_b:
                    mods.add((k_nl, int(b[1])))
                if integral_a and const_b:
                    # a / b is exact or at least 1/b away from an integer: floor is exact, the result an integer of [0, b-1]
                    used[0] += 1
                    rets_[i] = (st, E_.reg(('F', 0.0, b[1] - 1.0, False, T('o', E_.site(nf, 0, ('mod', i))))))
    E.hooks[f_mod['id']] = ModHook()

    def hook(E_, st, frame, bb, idx, stmt, v):
        if frame.depth != 0 or stmt['rv']['k'] != 'agg' or stmt['rv']['ak']['k'] != 'adt':
            return
        if prog.types[stmt['rv']['ak']['ty']]['name'] == 'decode::cpr::Position':
            lons.append((E_.scalar(st, E_.operand(st, frame, stmt['rv']['ops'][1])), stmt.get('sp'), k_nl))
    E.stmt_hook = hook
    E.gc_roots.update((c_old, c_new))

    def pre(E_, st, fr):
        st.cells[c_old] = mkmsg(E_, 'oldest')
        st.cells[c_new] = mkmsg(E_, 'latest')
    runner.run_entry(E, f_ap, [('R', c_old, (), False), ('R', c_new, (), False)], pre=pre, quiet=True)
