"""Re-run the registered check of every stored seed (seeded/<id>-s<k>/patch.diff) on a scratch copy of /repo
with the patch applied (VERIF_REPO); reports seeds that are no longer caught.  usage: reseed.py [jobs [name-prefix ...]]"""
import json
import os
import shutil
import subprocess
import sys
import tempfile
from concurrent.futures import ThreadPoolExecutor

VERIF = os.path.dirname(os.path.dirname(os.path.abspath(__file__)))


def one(name):
    prop = name.split('-')[0]
    d = os.path.join(VERIF, 'seeded', name)
    scratch = tempfile.mkdtemp(prefix='vrs-')
    try:
        subprocess.run(['rsync', '-a', '--exclude', 'target', '--exclude', '.git', '/repo/', scratch + '/'], check=True)
        r = subprocess.run(['patch', '-p1', '-s', '-i', os.path.join(d, 'patch.diff')], cwd=scratch, stdout=subprocess.PIPE, stderr=subprocess.STDOUT, text=True)
        if r.returncode != 0:
            return name, None, 'patch does not apply: ' + r.stdout[-200:]
        env = dict(os.environ, VERIF_REPO=scratch, VERIF_EVIDENCE_DIR=os.path.join(scratch, '.evidence'))
        r = subprocess.run([os.path.join(VERIF, 'check'), prop, 'quick'], env=env, stdout=subprocess.PIPE, stderr=subprocess.PIPE, text=True)
        caught = r.returncode == 1 and ('VIOLATION property=%s' % prop) in r.stdout
        rule = [l.strip() for l in r.stdout.splitlines() if l.startswith('  rule')][:1]
        return name, caught, (rule[0] if rule else r.stdout[-200:])
    finally:
        shutil.rmtree(scratch, ignore_errors=True)


def main():
    jobs = int(sys.argv[1]) if len(sys.argv) > 1 else 4
    names = sorted(os.listdir(os.path.join(VERIF, 'seeded')))
    if len(sys.argv) > 2:      # reseed.py <jobs> <prefix> ... : only the seeds whose name starts with one of the prefixes
        names = [n for n in names if any(n.startswith(p) for p in sys.argv[2:])]
    bad = 0
    with ThreadPoolExecutor(jobs) as ex:
        for name, caught, info in ex.map(one, names):
            print('%-8s %s  %s' % (name, 'caught' if caught else ('ERROR' if caught is None else 'MISSED'), info), flush=True)
            bad += 0 if caught else 1
    print('reseed: %d seeds, %d not caught' % (len(names), bad))
    return 1 if bad else 0


if __name__ == '__main__':
    sys.exit(main())
