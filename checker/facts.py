"""Fact loading: runs the vdrv driver over /repo's current tree (cached by content hash of the
sources that can influence the analysed program) and loads the per-crate JSON into one program
object with a global type table."""
import fcntl
import hashlib
import json
import os
import pickle
import subprocess
import sys
import time

VERIF = os.path.dirname(os.path.dirname(os.path.abspath(__file__)))
REPO = os.environ.get('VERIF_REPO', '/repo')
CACHE = os.path.join(VERIF, '.cache')
CRATES = ['rs1090', 'jet1090', 'decode1090']


def tree_hash(repo=REPO):
    h = hashlib.sha256()
    files = []
    for top in ('Cargo.toml', 'Cargo.lock'):
        files.append(os.path.join(repo, top))
    for root, dirs, fs in os.walk(os.path.join(repo, 'crates')):
        dirs[:] = sorted(d for d in dirs if d not in ('target', '.git'))
        for f in sorted(fs):
            if f.endswith(('.rs', '.toml', '.json', '.proto', '.csv')):
                files.append(os.path.join(root, f))
    pyproj = os.path.join(repo, 'python', 'Cargo.toml')
    if os.path.exists(pyproj):
        files.append(pyproj)
    for p in files:
        try:
            with open(p, 'rb') as fh:
                data = fh.read()
        except OSError:
            data = b'<missing>'
        h.update(os.path.relpath(p, repo).encode())
        h.update(b'\0')
        h.update(hashlib.sha256(data).digest())
    # the driver itself is part of the key
    for p in ('driver/src/main.rs', 'driver/src/dump.rs', 'driver/src/json.rs', 'checker/facts.py'):
        with open(os.path.join(VERIF, p), 'rb') as fh:
            h.update(hashlib.sha256(fh.read()).digest())
    return h.hexdigest()[:20]


class BuildError(Exception):
    pass


def ensure_facts(repo=REPO, verbose=True):
    """returns directory holding <crate>.json for the current tree"""
    os.makedirs(os.path.join(CACHE, 'facts'), exist_ok=True)
    key = tree_hash(repo)
    out = os.path.join(CACHE, 'facts', key)
    lock = open(os.path.join(CACHE, 'lock'), 'w')
    fcntl.flock(lock, fcntl.LOCK_EX)
    try:
        ok = all(os.path.exists(os.path.join(out, c + '.json')) for c in CRATES)
        if not ok:
            t = time.time()
            r = subprocess.run([os.path.join(VERIF, 'run_driver.sh'), repo, out,
                                os.path.join(CACHE, 'target')],
                               stdout=subprocess.PIPE, stderr=subprocess.PIPE, text=True)
            if r.returncode != 0:
                sys.stderr.write(r.stderr[-6000:])
                raise BuildError('driver run failed (tree does not build?) rc=%d' % r.returncode)
            if verbose:
                sys.stderr.write('[facts] driver run %.1fs -> %s\n' % (time.time() - t, out))
            # keep the cache bounded: drop all but the 6 newest fact sets
            base = os.path.join(CACHE, 'facts')
            ds = sorted((os.path.getmtime(os.path.join(base, d)), d) for d in os.listdir(base))
            for _, d in ds[:-6]:
                subprocess.run(['rm', '-rf', os.path.join(base, d)])
    finally:
        fcntl.flock(lock, fcntl.LOCK_UN)
        lock.close()
    return out


class Program:
    """all crates, global type table, bodies by id"""

    def __init__(self):
        self.types = []       # global type entries
        self.tix = {}         # 's' -> global id
        self.bodies = {}      # id -> body
        self.by_name = {}     # printed name -> [ids]
        self.allocs = {}      # (crate, idx) -> alloc
        self.crates = {}

    def ty(self, i):
        return self.types[i]

    def find(self, pred):
        return [b for b in self.bodies.values() if pred(b)]

    def body_by_name(self, name, kind=None):
        ids = self.by_name.get(name, [])
        out = [self.bodies[i] for i in ids if kind is None or self.bodies[i]['kind'] == kind]
        return out


def _remap_types(prog, crate, d):
    local = d['types']
    l2g = [None] * len(local)
    new_entries = []
    for i, e in enumerate(local):
        s = e.get('uk') or e['s']
        g = prog.tix.get(s)
        if g is None:
            g = len(prog.types)
            prog.tix[s] = g
            prog.types.append(None)
            new_entries.append((g, e))
        l2g[i] = g

    def m(x):
        return l2g[x] if x is not None else None
    for g, e in new_entries:
        e = dict(e)
        for k in ('to', 'elem'):
            if k in e:
                e[k] = m(e[k])
        for k in ('elems', 'args', 'upvars'):
            if k in e:
                e[k] = [m(x) for x in e[k]]
        if 'variants' in e:
            vs = []
            for v in e['variants']:
                v = dict(v)
                v['fields'] = [dict(f, ty=m(f['ty'])) if 'ty' in f else f for f in v['fields']]
                vs.append(v)
            e['variants'] = vs
        e['id'] = g
        prog.types[g] = e
    return l2g


def _remap_body(b, l2g, crate):
    b['crate'] = crate
    b['locals'] = [l2g[t] for t in b['locals']]

    def place(p):
        for e in p['p']:
            if e[0] == 'field':
                e[2] = l2g[e[2]]

    def operand(o):
        k = o['k']
        if k == 'const':
            o['ty'] = l2g[o['ty']]
            v = o['v']
            for key in ('alloc', 'ptr'):
                if key in v:
                    v[key] = (crate, v[key])
        elif 'pl' in o:
            place(o['pl'])

    def callee(c):
        if c:
            c['targs'] = [l2g[t] for t in c['targs']]
            if 'rtargs' in c:
                c['rtargs'] = [l2g[t] for t in c['rtargs']]
    for n, p in b['dbg']:
        place(p)
    for bb in b['blocks']:
        for s in bb['s']:
            if s['k'] == 'assign':
                place(s['pl'])
                rv = s['rv']
                k = rv['k']
                if k in ('use', 'repeat'):
                    operand(rv['op'])
                elif k in ('ref', 'rawptr', 'discr'):
                    place(rv['pl'])
                elif k == 'cast':
                    operand(rv['op'])
                    rv['ty'] = l2g[rv['ty']]
                elif k == 'bin':
                    operand(rv['l'])
                    operand(rv['r'])
                elif k == 'un':
                    operand(rv['x'])
                elif k == 'agg':
                    ak = rv['ak']
                    if 'ty' in ak:
                        ak['ty'] = l2g[ak['ty']]
                    if 'elem' in ak:
                        ak['elem'] = l2g[ak['elem']]
                    for o in rv['ops']:
                        operand(o)
            elif s['k'] == 'setdiscr':
                place(s['pl'])
        t = bb['t']
        if not t:
            continue
        k = t['k']
        if k == 'switch':
            operand(t['op'])
            t['vals'] = [(int(v), bbi) for v, bbi in t['vals']]
        elif k == 'drop':
            place(t['pl'])
        elif k in ('call', 'tailcall'):
            operand(t['func'])
            callee(t['callee'])
            for a in t['args']:
                operand(a)
            if 'dest' in t:
                place(t['dest'])
        elif k == 'assert':
            operand(t['cond'])
            for o in t['ops']:
                operand(o)
        elif k == 'yield':
            operand(t['value'])
            place(t['resume_arg'])


def load_program(repo=REPO, verbose=True):
    d = ensure_facts(repo, verbose)
    pk = os.path.join(d, 'program.pickle')
    if os.path.exists(pk):
        try:
            with open(pk, 'rb') as fh:
                return pickle.load(fh)
        except Exception:
            pass
    t = time.time()
    prog = Program()
    for c in CRATES:
        with open(os.path.join(d, c + '.json')) as fh:
            j = json.load(fh)
        l2g = _remap_types(prog, c, j)
        for i, a in enumerate(j['allocs']):
            if a and 'ptrs' in a:
                a['ptrs'] = [(off, (c, t)) for off, t in a['ptrs']]
            prog.allocs[(c, i)] = a
        for b in j['bodies']:
            _remap_body(b, l2g, c)
            if b['id'] in prog.bodies:
                raise BuildError('duplicate body id ' + b['id'])
            prog.bodies[b['id']] = b
            key = b['name'] if b['kind'] != 'promoted' else b['id']
            prog.by_name.setdefault(key, []).append(b['id'])
        prog.crates[c] = {'skipped': j['skipped'], 'nbodies': len(j['bodies'])}
    tmp = pk + '.tmp%d' % os.getpid()
    with open(tmp, 'wb') as fh:
        pickle.dump(prog, fh, protocol=pickle.HIGHEST_PROTOCOL)
    os.replace(tmp, pk)
    if verbose:
        sys.stderr.write('[facts] loaded %d bodies, %d types in %.1fs\n' % (len(prog.bodies), len(prog.types), time.time() - t))
    return prog


if __name__ == '__main__':
    p = load_program()
    print(len(p.bodies), 'bodies', len(p.types), 'types')
