"""Re-run registered quick checks on every stored behaviour-preserving refactoring (refactors/<id>/patch.diff) applied to a
scratch copy of /repo (VERIF_REPO); any exit other than 0 is a false alarm.  usage: rerefac.py [jobs] [Cxx ...]"""
import os
import shutil
import subprocess
import sys
import tempfile
from concurrent.futures import ThreadPoolExecutor

VERIF = os.path.dirname(os.path.dirname(os.path.abspath(__file__)))
ALL = ['C01', 'C02', 'C03', 'C04', 'C05', 'C06', 'C07', 'C08', 'C11', 'C12', 'C13', 'C14', 'C15', 'C16', 'C17', 'C18']


def one(a):
    name, props = a
    d = os.path.join(VERIF, 'refactors', name)
    scratch = tempfile.mkdtemp(prefix='vrr-')
    out = []
    try:
        subprocess.run(['rsync', '-a', '--exclude', 'target', '--exclude', '.git', '/repo/', scratch + '/'], check=True)
        r = subprocess.run(['patch', '-p1', '-s', '-i', os.path.join(d, 'patch.diff')], cwd=scratch, stdout=subprocess.PIPE, stderr=subprocess.STDOUT, text=True)
        if r.returncode != 0:
            return name, [('-', None, 'patch does not apply: ' + r.stdout[-200:])]
        for p in props:
            env = dict(os.environ, VERIF_REPO=scratch, VERIF_EVIDENCE_DIR=os.path.join(scratch, '.evidence'))
            r = subprocess.run([os.path.join(VERIF, 'check'), p, 'quick'], env=env, stdout=subprocess.PIPE, stderr=subprocess.PIPE, text=True)
            if r.returncode != 0:
                rule = [l.strip() for l in r.stdout.splitlines() if l.startswith(('  rule', '  key'))][:4]
                out.append((p, r.returncode, ' | '.join(rule) or r.stderr[-300:]))
        return name, out
    finally:
        shutil.rmtree(scratch, ignore_errors=True)


def main():
    args = sys.argv[1:]
    jobs = int(args[0]) if args and args[0].isdigit() else 4
    props = [a for a in args if a.startswith('C')] or ALL
    names = sorted(os.listdir(os.path.join(VERIF, 'refactors')))
    bad = 0
    with ThreadPoolExecutor(jobs) as ex:
        for name, out in ex.map(one, [(n, props) for n in names]):
            if out:
                bad += 1
                for p, rc, info in out:
                    print('%-10s %s exit=%s  %s' % (name, p, rc, info), flush=True)
            else:
                print('%-10s silent (%s)' % (name, ' '.join(props)), flush=True)
    print('rerefac: %d refactorings, %d with an alarm' % (len(names), bad))
    return 1 if bad else 0


if __name__ == '__main__':
    sys.exit(main())
