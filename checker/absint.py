"""Engine A: abstract interpreter over the MIR facts exported by vdrv.

Values are plain tuples (fast structural equality):
  ('I', lo, hi, zeros, term)      integer / bool / char; zeros = mask of bits known 0 (value >= 0)
  ('F', lo, hi, nan, term)        float interval (closed), nan = may be NaN
  ('A', (fields...))              struct / tuple / closure environment
  ('E', eid, ((vidx,(fields..)),..))   enum: possible variants with payloads
  ('R', cell, path)               reference to a place; cell None = unknown pointee
  ('S', len, elem, items)         sequence (array, Vec, String, slice, str); items tuple or None
  ('T', tyid, origin)             unknown value of a type (materialised lazily)
  ('B',)                          bottom
  ('O', kind, payload)            opaque object with modelled behaviour (reader streams, maps ...)
Terms are interned tuples.
"""
import math
import sys

BOT = ('B',)
INF = float('inf')
MAXF = 1.7976931348623157e308

# ----------------------------------------------------------------------------------------------
# terms


_terms = {}


def T(*t):
    if len(t) == 2 and t[0] == 'c' and t[1].__class__ is float:
        # 0 == 0.0 in python: keep float and integer constants apart in the intern table
        k = ('c', t[1], 'f')
        r = _terms.get(k)
        if r is None:
            _terms[k] = t
            r = t
        return r
    r = _terms.get(t)
    if r is None:
        _terms[t] = t
        r = t
    return r


def tconst(v):
    return T('c', v)


def term_size(t, lim=40):
    if t is None:
        return 0
    n = 1
    for x in t[1:]:
        if isinstance(x, tuple) and x and isinstance(x[0], str):
            n += term_size(x, lim)
            if n > lim:
                return n
    return n


# ----------------------------------------------------------------------------------------------
# integer helpers


def int_range(ty):
    k = ty['k']
    if k == 'bool':
        return 0, 1
    if k == 'char':
        return 0, 0x10FFFF
    b = ty['bits']
    if k == 'uint':
        return 0, (1 << b) - 1
    return -(1 << (b - 1)), (1 << (b - 1)) - 1


def mk_int(lo, hi, zeros=0, term=None):
    if lo > hi:
        return BOT
    if lo >= 0:
        # tighten hi using zeros is not needed; derive zeros from hi
        bl = hi.bit_length()
        zeros = zeros | ~((1 << bl) - 1)
        zeros &= (1 << 130) - 1
    else:
        zeros = 0
    if lo == hi:
        term = tconst(lo)
        if lo >= 0:
            zeros = ~lo & ((1 << 130) - 1)
    return ('I', lo, hi, zeros, term)


def const_int(v):
    return mk_int(v, v)


def is_const(v):
    return v[0] == 'I' and v[1] == v[2]


def max_from_zeros(zeros, hi):
    """largest value <= hi having no bit of `zeros`"""
    # candidate: all non-zero bits set
    allowed = ~zeros & ((1 << max(hi.bit_length(), 1)) - 1)
    if allowed <= hi:
        return allowed
    # greedy: walk from msb
    res = 0
    for b in range(hi.bit_length() - 1, -1, -1):
        bit = 1 << b
        if hi & bit:
            if allowed & bit:
                res |= bit
            else:
                # hi has a bit we cannot set: set all lower allowed bits
                res |= allowed & (bit - 1)
                return res
        # hi bit is 0: keep 0
    return res


def mk_float(lo, hi, nan=False, term=None):
    if lo != lo or hi != hi:
        return ('F', -INF, INF, True, term)
    if lo > hi:
        if nan:
            return ('F', INF, -INF, True, term)
        return BOT
    return ('F', lo, hi, nan, term)


def fdown(x):
    if x == -INF or x == INF:
        return x
    return math.nextafter(x, -INF)


def fup(x):
    if x == -INF or x == INF:
        return x
    return math.nextafter(x, INF)


# ----------------------------------------------------------------------------------------------
# lattice


def join(a, b):
    if a is b or a == b:
        return a
    if a == BOT:
        return b
    if b == BOT:
        return a
    ka, kb = a[0], b[0]
    if ka == 'T' and kb == 'T' and a[1] == b[1]:
        return ('T', a[1], None) if a[2] != b[2] else a
    if ka == 'T':
        return ('T', a[1], None)
    if kb == 'T':
        return ('T', b[1], None)
    if ka != kb:
        return ('T', None, None)
    if ka == 'I':
        lo, hi = min(a[1], b[1]), max(a[2], b[2])
        zeros = a[3] & b[3] if lo >= 0 else 0
        term = a[4] if a[4] is b[4] or a[4] == b[4] else None
        if term is None and a[4] is not None and b[4] is not None:
            d = _gcd(_divisor(a[4]), _divisor(b[4]))
            if d > 1 or d == 0:
                term = ('dvhint', d)       # renamed to a unique ('jd', key, d) by name_val
        return ('I', lo, hi, zeros, term)
    if ka == 'F':
        term = a[4] if a[4] == b[4] else None
        return ('F', min(a[1], b[1]), max(a[2], b[2]), a[3] or b[3], term)
    if ka == 'A':
        if len(a[1]) != len(b[1]):
            return ('T', None, None)
        return ('A', tuple(join(x, y) for x, y in zip(a[1], b[1])))
    if ka == 'E':
        da, db = dict(a[2]), dict(b[2])
        out = {}
        for k in set(da) | set(db):
            if k in da and k in db:
                fa, fb = da[k], db[k]
                if len(fa) == len(fb):
                    out[k] = tuple(join(x, y) for x, y in zip(fa, fb))
                else:
                    out[k] = fa
            else:
                out[k] = da.get(k, db.get(k))
        eid = a[1] if a[1] == b[1] else None
        return ('E', eid, tuple(sorted(out.items())))
    if ka == 'R':
        if a[1] == b[1] and a[2] == b[2]:
            return a if (a[3] or not b[3]) else b
        return ('R', None, (), a[3] or b[3])
    if ka == 'S':
        ln = join(a[1], b[1])
        el = join(a[2], b[2])
        items = None
        if a[3] is not None and b[3] is not None and len(a[3]) == len(b[3]):
            items = tuple(join(x, y) for x, y in zip(a[3], b[3]))
        return ('S', ln, el, items)
    if ka == 'O':
        return o_join(a, b, join)
    return ('T', None, None)


def o_join(a, b, f):
    """join of modelled library objects, by kind"""
    if a[1] != b[1]:
        return ('T', None, None)
    kind = a[1]
    pa, pb = a[2], b[2]

    def opt(x, y):
        if x is None or y is None:
            return None
        return f(x, y)
    if kind == 'stream':
        if pa[0] != pb[0]:
            return ('O', 'stream', (None, None, None))
        return ('O', 'stream', (pa[0], opt(pa[1], pb[1]), pa[2] if pa[2] == pb[2] else None))
    if kind == 'bitvec':
        same = pa[1] == pb[1] and pa[2] == pb[2]
        return ('O', 'bitvec', (f(pa[0], pb[0]), pa[1] if same else None, pa[2] if same else None))
    if kind in ('cursor', 'tablestate'):
        return ('O', kind, (f(pa[0], pb[0]),))
    if pa == pb:
        return a
    return ('T', None, None)


def widen(old, new, thresholds):
    """old ⊑ new expected; push unstable bounds to thresholds"""
    if old == new or old == BOT:
        return new
    if new == BOT:
        return old
    ko, kn = old[0], new[0]
    if ko != kn:
        return join(old, new)
    if ko == 'I':
        lo, hi = old[1], old[2]
        if new[1] < lo:
            c = [t for t in thresholds if t <= new[1]]
            lo = max(c) if c else -(1 << 127)
        if new[2] > hi:
            c = [t for t in thresholds if t >= new[2]]
            hi = min(c) if c else (1 << 127)
        zeros = old[3] & new[3] if lo >= 0 else 0
        term = old[4] if old[4] == new[4] else None
        return ('I', lo, hi, zeros, term)
    if ko == 'F':
        lo, hi = old[1], old[2]
        if new[1] < lo:
            lo = -INF
        if new[2] > hi:
            hi = INF
        return ('F', lo, hi, old[3] or new[3], old[4] if old[4] == new[4] else None)
    if ko == 'A' and len(old[1]) == len(new[1]):
        return ('A', tuple(widen(x, y, thresholds) for x, y in zip(old[1], new[1])))
    if ko == 'E':
        do, dn = dict(old[2]), dict(new[2])
        out = {}
        for k in set(do) | set(dn):
            if k in do and k in dn and len(do[k]) == len(dn[k]):
                out[k] = tuple(widen(x, y, thresholds) for x, y in zip(do[k], dn[k]))
            else:
                out[k] = dn.get(k, do.get(k))
        return ('E', old[1] if old[1] == new[1] else None, tuple(sorted(out.items())))
    if ko == 'S':
        items = None
        if old[3] is not None and new[3] is not None and len(old[3]) == len(new[3]):
            items = tuple(widen(x, y, thresholds) for x, y in zip(old[3], new[3]))
        return ('S', widen(old[1], new[1], thresholds), widen(old[2], new[2], thresholds), items)
    if ko == 'O':
        return o_join(old, new, lambda x, y: widen(x, y, thresholds))
    return join(old, new)


def strip_terms(v, pred):
    """drop terms selected by pred (used at loop heads)"""
    k = v[0]
    if k == 'I' or k == 'F':
        if v[4] is not None and v[4][0] != 'c' and pred(v[4]):
            return (k, v[1], v[2], v[3], None)
        return v
    if k == 'A':
        return ('A', tuple(strip_terms(x, pred) for x in v[1]))
    if k == 'E':
        return ('E', None if (v[1] is not None and pred(v[1])) else v[1],
                tuple((i, tuple(strip_terms(x, pred) for x in fs)) for i, fs in v[2]))
    if k == 'S':
        return ('S', strip_terms(v[1], pred), strip_terms(v[2], pred),
                None if v[3] is None else tuple(strip_terms(x, pred) for x in v[3]))
    return v


# ----------------------------------------------------------------------------------------------


class State:
    __slots__ = ('cells', 'rf', 'erf', 'facts', 'tags')

    def __init__(self):
        self.cells = {}
        self.rf = {}      # term -> (lo, hi, zeros)
        self.erf = {}     # eid -> frozenset(variant idx)
        self.facts = frozenset()   # (op, t1, t2) assumed true
        self.tags = frozenset()    # path tags for rule queries

    def copy(self):
        s = State.__new__(State)
        s.cells = dict(self.cells)
        s.rf = dict(self.rf)
        s.erf = dict(self.erf)
        s.facts = self.facts
        s.tags = self.tags
        return s

    def same(self, o):
        return self.cells == o.cells and self.rf == o.rf and self.erf == o.erf and self.facts == o.facts and self.tags == o.tags


def _gcd(a, b):
    from math import gcd
    return gcd(a, b)


def _divisor(t, depth=0):
    """largest d known to divide the integer denoted by term t (0: the value is 0)"""
    if t is None or depth > 12:
        return 1
    op = t[0]
    if op == 'c':
        return abs(t[1]) if t[1].__class__ is int else 1
    if op == 'jd':
        return t[2]
    if op == 'dvhint':
        return t[1]
    if op == 'Mul' and len(t) == 3:
        return _divisor(t[1], depth + 1) * _divisor(t[2], depth + 1)
    if op in ('Add', 'Sub') and len(t) == 3:
        return _gcd(_divisor(t[1], depth + 1), _divisor(t[2], depth + 1))
    if op == 'Shl' and len(t) == 3 and t[2][0] == 'c':
        return _divisor(t[1], depth + 1) << t[2][1]
    return 1


def name_val(v, key):
    """give anonymous scalars produced by a join a stable name (term) so they can be refined"""
    k = v[0]
    if k == 'I':
        if v[4] is not None and v[4][0] == 'dvhint':
            return ('I', v[1], v[2], v[3], T('jd', key, v[4][1]))
        if v[4] is None and v[1] != v[2]:
            return ('I', v[1], v[2], v[3], T('j', key))
        return v
    if k == 'F':
        if v[4] is None and not (v[1] == v[2] and not v[3]):
            return ('F', v[1], v[2], v[3], T('j', key))
        return v
    if k == 'A':
        fs = v[1]
        nf = tuple(name_val(x, (key, i)) for i, x in enumerate(fs))
        if all(x is y for x, y in zip(fs, nf)):
            return v
        return ('A', nf)
    if k == 'E':
        out = []
        ch = False
        for vi, fs in v[2]:
            nf = tuple(name_val(x, (key, vi, i)) for i, x in enumerate(fs))
            if any(x is not y for x, y in zip(fs, nf)):
                ch = True
            out.append((vi, nf))
        eid = v[1]
        if eid is None:
            eid = T('e', ('j', key))
            ch = True
        if not ch:
            return v
        return ('E', eid, tuple(out))
    if k == 'S':
        ln = name_val(v[1], (key, 'len'))
        if ln is v[1]:
            return v
        return ('S', ln, v[2], v[3])
    return v


def join_states(a, b, site=None):
    s = State()
    cand = []
    ca, cb = a.cells, b.cells
    for k, va in ca.items():
        vb = cb.get(k)
        if vb is None:
            continue
        if va is vb:
            s.cells[k] = va
            continue
        # refinements are per state: bake them into the values before joining (also inside
        # Option / struct payloads, whose scalars may carry different terms in the two states)
        if va[0] in ('I', 'F', 'E', 'A'):
            va = a.resolve(va)
        if vb[0] in ('I', 'F', 'E', 'A'):
            vb = b.resolve(vb)
        if va == BOT or vb == BOT:
            j = vb if va == BOT else va
            s.cells[k] = j
            continue
        j = join(va, vb)
        if site is not None:
            j = name_val(j, (site, k))
            if j[0] == 'I' and va[0] == 'I' and vb[0] == 'I' and j[4] is not None and j[4][0] in ('j', 'jd') and va[1:3] != vb[1:3] and len(cand) < 8:
                cand.append((j[4], va, vb))
            elif j[0] == 'A' and va[0] == 'A' and vb[0] == 'A' and len(j[1]) == len(va[1]) == len(vb[1]) <= 6:
                for j_, a_, b_ in zip(j[1], va[1], vb[1]):      # a tuple of per-arm constants
                    if j_[0] == 'I' and a_[0] == 'I' and b_[0] == 'I' and j_[4] is not None and j_[4][0] in ('j', 'jd') and a_[1:3] != b_[1:3] and len(cand) < 8:
                        cand.append((j_[4], a_, b_))
        s.cells[k] = j
    derived = []
    if cand and a.rf and b.rf:
        # a value that is a (different) constant in each state and a term bounded from below / above by that
        # constant in each state: the order between the joined value and the term survives the join
        # (match arms binding `(first, ..)` for `mov` in first..=last, then `mov - first`)
        n_ = 0
        for X, ra in a.rf.items():
            rb = b.rf.get(X)
            if rb is None or isinstance(ra[2], bool) or isinstance(rb[2], bool) or X[0] == 'c' or X[0] in CMPS:
                continue
            n_ += 1
            if n_ > 24:
                break
            for jt, va, vb in cand:
                if jt == X:
                    continue
                le_a = va[2] <= ra[0] or (va[4] is not None and ('Le', va[4], X) in a.facts)
                le_b = vb[2] <= rb[0] or (vb[4] is not None and ('Le', vb[4], X) in b.facts)
                ge_a = va[1] >= ra[1] or (va[4] is not None and ('Ge', va[4], X) in a.facts)
                ge_b = vb[1] >= rb[1] or (vb[4] is not None and ('Ge', vb[4], X) in b.facts)
                if le_a and le_b:
                    derived.append(('Le', jt, X))
                elif ge_a and ge_b:
                    derived.append(('Ge', jt, X))
    for t, r in a.rf.items():
        r2 = b.rf.get(t)
        if r2 is not None:
            if isinstance(r[2], bool) or isinstance(r2[2], bool):
                s.rf[t] = (min(r[0], r2[0]), max(r[1], r2[1]), bool(r[2]) or bool(r2[2]))
            else:
                lo, hi = min(r[0], r2[0]), max(r[1], r2[1])
                s.rf[t] = (lo, hi, r[2] & r2[2] if lo >= 0 else 0)
    for e, vs in a.erf.items():
        v2 = b.erf.get(e)
        if v2 is not None:
            s.erf[e] = vs | v2
    s.facts = a.facts & b.facts
    if derived:
        s.facts = s.facts | frozenset(derived)
    s.tags = a.tags & b.tags
    return s


def _resolve(self, v):
    """apply term / enum refinements of this state to a value (deep)"""
    k = v[0]
    if k == 'I':
        t = v[4]
        if t is not None:
            r = self.rf.get(t)
            if r is not None:
                lo, hi = max(v[1], r[0]), min(v[2], r[1])
                if lo > hi:
                    return BOT
                m = mk_int(lo, hi, (v[3] | r[2]) if lo >= 0 else 0, t)
                # keep the symbolic identity even when the refinement pins the value (provenance)
                return ('I', m[1], m[2], m[3], t)
        return v
    if k == 'F':
        t = v[4]
        if t is not None:
            r = self.rf.get(t)
            if r is not None:
                lo, hi = max(v[1], r[0]), min(v[2], r[1])
                nan = v[3] and r[2]
                return mk_float(lo, hi, nan, t)
        return v
    if k == 'A':
        fs = tuple(_resolve(self, x) for x in v[1])
        return ('A', fs)
    if k == 'E':
        allowed = self.erf.get(v[1]) if v[1] is not None else None
        out = []
        for i, fs in v[2]:
            if allowed is not None and i not in allowed:
                continue
            nf = tuple(_resolve(self, x) for x in fs)
            if any(x == BOT for x in nf):
                continue
            out.append((i, nf))
        if not out:
            return BOT
        return ('E', v[1], tuple(out))
    if k == 'S':
        return ('S', _resolve(self, v[1]), v[2], v[3])
    return v


State.resolve = _resolve


# ----------------------------------------------------------------------------------------------
# type classification

SEQ_ADTS = ('alloc::vec::Vec', 'std::vec::Vec', 'alloc::string::String', 'std::string::String')


class Types:
    def __init__(self, prog):
        self.prog = prog
        self.t = prog.types
        self._seqcache = {}

    def get(self, i):
        return self.t[i]

    def is_seq_adt(self, ty):
        return ty['k'] == 'adt' and ty['name'] in SEQ_ADTS

    def seq_elem(self, ty):
        """element type id for sequence-like types (or None)"""
        k = ty['k']
        if k in ('slice', 'array'):
            return ty['elem']
        if k == 'str':
            return self.u8()
        if k == 'adt':
            n = ty['name']
            if n in ('alloc::vec::Vec', 'std::vec::Vec'):
                return ty['args'][0] if ty['args'] else None
            if n in ('alloc::string::String', 'std::string::String'):
                return self.u8()
        return None

    def u8(self):
        return self.prog.tix.get('u8')

    def by_name(self, s):
        return self.prog.tix.get(s)

    def pointee(self, ty):
        if ty['k'] in ('ref', 'ptr'):
            return ty['to']
        if ty['k'] == 'adt' and ty['name'] in ('alloc::boxed::Box', 'std::boxed::Box') and ty['args']:
            return ty['args'][0]
        return None


class Obligation:
    __slots__ = ('key', 'kind', 'fn', 'ok', 'detail', 'site', 'path', 'n_states', 'nontrivial')

    def __init__(self, key, kind, fn, ok, detail, site, path, n_states, nontrivial):
        self.key = key
        self.kind = kind
        self.fn = fn
        self.ok = ok
        self.detail = detail
        self.site = site
        self.path = path
        self.n_states = n_states
        self.nontrivial = nontrivial


class AnalysisError(Exception):
    pass


class Frame:
    __slots__ = ('depth', 'body', 'path', 'pathid', 'info')

    def __init__(self, depth, body, path, pathid, info):
        self.depth = depth
        self.body = body
        self.path = path        # tuple of (fn name, bb) call sites
        self.pathid = pathid
        self.info = info


class BodyInfo:
    """per-body static info: RPO, loop heads, liveness, thresholds, obligation ordinals"""

    def __init__(self, body, types):
        self.body = body
        blocks = body['blocks']
        n = len(blocks)
        succ = [[] for _ in range(n)]
        for i, bb in enumerate(blocks):
            t = bb['t']
            if not t:
                continue
            k = t['k']
            if k == 'goto':
                succ[i] = [t['t']]
            elif k == 'switch':
                succ[i] = [x[1] for x in t['vals']] + [t['otherwise']]
            elif k in ('drop', 'assert', 'yield'):
                succ[i] = [t['t']]
            elif k == 'call':
                succ[i] = [t['t']] if t['t'] is not None else []
        self.succ = succ
        # DFS for RPO + back edges
        order = []
        state = [0] * n
        self.loop_heads = set()
        stack = [(0, iter(succ[0]))]
        state[0] = 1
        while stack:
            node, it = stack[-1]
            adv = False
            for s in it:
                if state[s] == 0:
                    state[s] = 1
                    stack.append((s, iter(succ[s])))
                    adv = True
                    break
                elif state[s] == 1:
                    self.loop_heads.add(s)
            if not adv:
                state[node] = 2
                order.append(node)
                stack.pop()
        order.reverse()
        self.rpo = {b: i for i, b in enumerate(order)}
        self.order = order
        self.pred = [[] for _ in range(n)]
        for i in order:
            for s in succ[i]:
                if s in self.rpo:
                    self.pred[s].append(i)
        # natural loop bodies (blocks that can reach the back edge source without passing head)
        self.loop_blocks = {}
        for h in self.loop_heads:
            blk = {h}
            work = [p for p in self.pred[h] if self.rpo[p] >= self.rpo[h]]
            while work:
                x = work.pop()
                if x in blk:
                    continue
                blk.add(x)
                work.extend(self.pred[x])
            self.loop_blocks[h] = blk
        self.in_loop = set()
        for h, blk in self.loop_blocks.items():
            self.in_loop |= blk
        # borrowed locals + thresholds + liveness
        self.borrowed = set()
        consts = set([0, 1, -1])
        nl = len(body['locals'])
        use = [set() for _ in range(n)]
        defs = [set() for _ in range(n)]

        def u_place(i, p, is_def=False):
            l = p['l']
            if is_def and not p['p']:
                if l not in use[i]:
                    defs[i].add(l)
            else:
                if l not in defs[i]:
                    use[i].add(l)
            for e in p['p']:
                if e[0] == 'index' and e[1] not in defs[i]:
                    use[i].add(e[1])

        def u_op(i, o):
            if o['k'] in ('copy', 'move'):
                u_place(i, o['pl'])
            elif o['k'] == 'const':
                v = o['v']
                if 'int' in v:
                    c = int(v['int'])
                    ty = types.get(o['ty'])
                    if ty['k'] == 'int' and c >= (1 << (ty['bits'] - 1)):
                        c -= 1 << ty['bits']
                    consts.add(c)
                    consts.add(c - 1)
                    consts.add(c + 1)
        for i, bb in enumerate(blocks):
            for s in bb['s']:
                if s['k'] == 'assign':
                    rv = s['rv']
                    k = rv['k']
                    if k in ('use', 'repeat', 'cast'):
                        u_op(i, rv['op'])
                    elif k in ('ref', 'rawptr'):
                        self.borrowed.add(rv['pl']['l'])
                        u_place(i, rv['pl'])
                    elif k == 'discr':
                        u_place(i, rv['pl'])
                    elif k == 'bin':
                        u_op(i, rv['l'])
                        u_op(i, rv['r'])
                    elif k == 'un':
                        u_op(i, rv['x'])
                    elif k == 'agg':
                        for o in rv['ops']:
                            u_op(i, o)
                    u_place(i, s['pl'], True)
                elif s['k'] == 'setdiscr':
                    u_place(i, s['pl'])
            t = bb['t']
            if t:
                k = t['k']
                if k == 'switch':
                    u_op(i, t['op'])
                    for v, _ in t['vals']:
                        consts.add(v)
                elif k == 'drop':
                    u_place(i, t['pl'])
                elif k == 'call':
                    u_op(i, t['func'])
                    for a in t['args']:
                        u_op(i, a)
                    u_place(i, t['dest'], True)
                elif k == 'assert':
                    u_op(i, t['cond'])
                    for o in t['ops']:
                        u_op(i, o)
                elif k == 'yield':
                    u_op(i, t['value'])
                    u_place(i, t['resume_arg'], True)
                elif k == 'return':
                    use[i].add(0)
        self.thresholds = sorted(consts)
        live_in = [set() for _ in range(n)]
        changed = True
        while changed:
            changed = False
            for i in reversed(order):
                out = set()
                for s in succ[i]:
                    out |= live_in[s]
                new = use[i] | (out - defs[i])
                if new != live_in[i]:
                    live_in[i] = new
                    changed = True
        self.live_in = live_in
        # ordinals for obligation keys
        self.ordinals = {}
        counters = {}
        for i, bb in enumerate(blocks):
            t = bb['t']
            if not t:
                continue
            if t['k'] == 'assert':
                kind = t['msg']
            elif t['k'] == 'call':
                c = t['callee']
                kind = 'call:' + (short_callee(c) if c else 'indirect')
            else:
                continue
            o = counters.get(kind, 0)
            counters[kind] = o + 1
            self.ordinals[i] = (kind, o)
        self.dbgname = {}
        for nme, p in body['dbg']:
            if not p['p']:
                self.dbgname.setdefault(p['l'], nme)


def short_callee(c):
    """stable name of a callee for obligation keys"""
    d = c.get('rdid') or c.get('did') or '?'
    rs = c.get('rself')
    if rs and '{impl#' in d:
        head, _, tail = d.rpartition('::')
        return '<%s>::%s' % (rs, tail)
    return d


# ----------------------------------------------------------------------------------------------
# interpreter

TRUSTED_CRATES = {'core', 'alloc', 'std', 'deku', 'bitvec', 'libm', 'log', 'tracing', 'tracing_core',
                  'tracing_subscriber', 'serde', 'serde_json', 'hex', 'regex', 'once_cell', 'url',
                  'ratatui', 'crossterm', 'tokio', 'hashbrown', 'num_complex', 'futures_util',
                  'futures_core', 'futures', 'async_stream', 'chrono', 'rayon', 'rayon_core',
                  'ansi_term', 'tokio_tungstenite', 'tungstenite', 'warp', 'redis', 'rusqlite',
                  'reqwest', 'clap', 'clap_builder', 'toml', 'dirs', 'zip', 'bytes', 'http',
                  'unicode_width', 'serde_core', 'tokio_stream', 'tokio_util', 'futures_channel'}

WORKSPACE = {'rs1090', 'jet1090', 'decode1090'}


class Interp:
    def __init__(self, prog, K=8, max_depth=14, models=None, hooks=None, verbose=False):
        self.prog = prog
        self.types = Types(prog)
        self.K = K
        self.max_depth = max_depth
        self.models = models
        self.hooks = hooks or {}
        self.verbose = verbose
        self.infos = {}
        self.inst = {}          # (pathid, bodyid, bb) -> Obligation (latest evaluation)
        self.paths = {}
        self.path_list = []
        self.n_blocks = 0
        self.n_calls = 0
        self.fn_seen = set()
        self.notes = []
        self.stack_fns = []
        self.ext_calls = {}
        self.ext_names = {}
        self.effects = set()
        self.budget = None
        self.per_caller_budget = False
        self.max_groups = 8
        self.lazy_running = set()
        self.kraw = {}
        self.json_consts = {}
        self.elementwise = True     # iterate small literal containers element by element
        self.keep_fact = None       # rule-specific predicate: facts never garbage-collected
        self.cast_events = None     # list to collect value-changing integer casts
        self.skip_bodies = set()    # workspace functions treated as opaque (rule-specific runs)
        self.partitions = {}        # fn name -> {variable names}: trace partitioning directives
        self.partitions_found = {}

    # ---- bookkeeping
    def info(self, body):
        i = self.infos.get(body['id'])
        if i is None:
            i = BodyInfo(body, self.types)
            names = self.partitions.get(body['name'])
            i.part_locals = {}
            if names:
                for nme, p in body['dbg']:
                    if nme in names and not p['p']:
                        i.part_locals[p['l']] = nme
                for x in names:
                    if isinstance(x, int):
                        i.part_locals[x] = '_%d' % x
                self.partitions_found.setdefault(body['name'], set()).update(i.part_locals.values())
            self.infos[body['id']] = i
        return i

    def pathid(self, path):
        p = self.paths.get(path)
        if p is None:
            p = len(self.path_list)
            self.paths[path] = p
            self.path_list.append(path)
        return p

    def record(self, frame, bb, kind_ord, ok, detail, nstates, nontrivial=True, sp=None):
        kind, o = kind_ord
        fn = frame.body['name']
        if frame.body['kind'] == 'promoted':
            fn = frame.body['id']
        key = '%s#%s#%d' % (fn, kind, o)
        site = '%s:%s' % (frame.body['file'], sp if sp is not None else '?')
        ik = (frame.pathid, frame.body['id'], bb)
        prev = self.inst.get(ik)
        if prev is not None and not prev.ok:
            # verdicts of successive visits (unrolled iterations, re-entries) are conjoined
            prev.n_states += nstates
            return
        self.inst[ik] = Obligation(key, kind, fn, ok, detail, site, frame.path,
                                   nstates + (prev.n_states if prev else 0),
                                   nontrivial or (prev.nontrivial if prev else False))

    def obligations(self):
        """aggregate instances by key"""
        agg = {}
        for ob in self.inst.values():
            a = agg.get(ob.key)
            if a is None:
                agg[ob.key] = {'key': ob.key, 'kind': ob.kind, 'fn': ob.fn, 'ok': ob.ok, 'site': ob.site,
                               'instances': 1, 'open': [] if ob.ok else [ob], 'nontrivial': ob.nontrivial}
            else:
                a['instances'] += 1
                a['nontrivial'] = a['nontrivial'] or ob.nontrivial
                if not ob.ok:
                    a['ok'] = False
                    a['open'].append(ob)
        return agg

    # ---- values from types
    def top(self, tyid, origin=None):
        return ('T', tyid, origin)

    def expand(self, v):
        """materialise one level of an unknown value"""
        if v[0] != 'T':
            return v
        tyid, origin = v[1], v[2]
        if tyid is None:
            return v
        ty = self.types.get(tyid)
        k = ty['k']
        if k in ('int', 'uint', 'bool', 'char'):
            lo, hi = int_range(ty)
            return mk_int(lo, hi, 0, T('o', origin) if origin is not None else None)
        if k == 'float':
            return ('F', -INF, INF, True, T('o', origin) if origin is not None else None)
        if k == 'tuple':
            return ('A', tuple(('T', t, sub(origin, i)) for i, t in enumerate(ty['elems'])))
        if k == 'closure':
            return ('A', tuple(('T', t, sub(origin, i)) for i, t in enumerate(ty['upvars'])))
        if k == 'fndef':
            return ('A', ())
        if k == 'never':
            return BOT
        if k in ('ref', 'ptr'):
            if origin is None:
                return ('R', None, (), ty['mut'])
            return ('R', ('o', origin), (), ty['mut'])
        if k == 'array':
            n = ty['len']
            if n is not None and n <= 64:
                return ('S', const_int(n), ('T', ty['elem'], sub(origin, '[]')),
                        tuple(('T', ty['elem'], sub(origin, i)) for i in range(n)))
            ln = const_int(n) if n is not None else mk_int(0, (1 << 63) - 1)
            return ('S', ln, ('T', ty['elem'], sub(origin, '[]')), None)
        if k in ('slice', 'str'):
            return ('S', mk_int(0, (1 << 63) - 1, 0, T('len', origin) if origin is not None else None),
                    ('T', self.types.seq_elem(ty), sub(origin, '[]')), None)
        if k == 'adt':
            if self.types.is_seq_adt(ty):
                return ('S', mk_int(0, (1 << 63) - 1, 0, T('len', origin) if origin is not None else None),
                        ('T', self.types.seq_elem(ty), sub(origin, '[]')), None)
            if ty['name'] in ('alloc::boxed::Box', 'std::boxed::Box'):
                if origin is None:
                    return ('R', None, (), True)
                return ('R', ('o', origin), (), True)
            vs = ty['variants']
            if ty['ak'] == 'struct':
                fs = vs[0]['fields'] if vs else []
                if any('ty' not in f for f in fs):
                    return v     # opaque library struct
                return ('A', tuple(('T', f['ty'], sub(origin, i)) for i, f in enumerate(fs)))
            if ty['ak'] == 'enum':
                if any('ty' not in f for vv in vs for f in vv['fields']):
                    return v
                out = []
                for vi, vv in enumerate(vs):
                    out.append((vi, tuple(('T', f['ty'], sub(origin, (vi, i))) for i, f in enumerate(vv['fields']))))
                return ('E', T('e', origin) if origin is not None else None, tuple(out))
        return v

    def pointee_init(self, st, cell, ty_hint):
        """lazily create the cell behind a reference with symbolic origin"""
        if cell in st.cells:
            return
        if cell[0] == 'o':
            st.cells[cell] = ('T', ty_hint, (cell[1], '*'))

    # ---- places
    def place_ty(self, frame, place):
        ty = frame.body['locals'][place['l']]
        for e in place['p']:
            k = e[0]
            if k == 'field':
                ty = e[2]
            elif k == 'deref':
                ty = self.types.pointee(self.types.get(ty))
            elif k in ('index', 'cidx'):
                ty = self.types.seq_elem(self.types.get(ty))
            elif k == 'subslice':
                pass
            if ty is None:
                return None
        return ty

    def lvalue(self, st, frame, place):
        """-> (cell, path) or None when the place is behind an unknown pointer"""
        cell = (frame.depth, place['l'])
        path = ()
        tyid = frame.body['locals'][place['l']]
        for e in place['p']:
            k = e[0]
            if k == 'deref':
                v = self.read_lv(st, (cell, path), tyid)
                v = self.expand(v)
                pt = self.types.pointee(self.types.get(tyid)) if tyid is not None else None
                if v[0] != 'R' or v[1] is None:
                    return None
                cell, path = v[1], v[2]
                self.pointee_init(st, cell, pt)
                tyid = pt
            elif k == 'field':
                path = path + (e[1],)
                tyid = e[2]
            elif k == 'downcast':
                path = path + (('v', e[1]),)
            elif k == 'index':
                iv = st.resolve(self.expand(self.read_lv(st, ((frame.depth, e[1]), ()), None)))
                if iv[0] == 'I' and iv[1] == iv[2]:
                    path = path + (('i', iv[1]),)
                else:
                    path = path + (('i*', iv if iv[0] == 'I' else None),)
                tyid = self.types.seq_elem(self.types.get(tyid)) if tyid is not None else None
            elif k == 'cidx':
                if e[3]:
                    path = path + (('i*', None),)
                else:
                    path = path + (('i', e[1]),)
                tyid = self.types.seq_elem(self.types.get(tyid)) if tyid is not None else None
            else:
                path = path + (('?',),)
        return (cell, path)

    def read_lv(self, st, lv, tyid):
        if lv is None:
            return ('T', tyid, None)
        cell, path = lv
        v = st.cells.get(cell)
        if v is None:
            if cell[0] == 'o':
                self.pointee_init(st, cell, None)
                v = st.cells[cell]
            elif cell[0] == 'k' and cell in self.kcells:
                v = self.kcells[cell]
                if not path:
                    return v
                _, out = self._nav_read(st, v, path, 0)
                if out[0] == 'T' and out[1] is None and tyid is not None:
                    return ('T', tyid, out[2])
                return out
            else:
                return ('T', tyid, None)
        if not path:
            if v[0] == 'T' and v[1] is None and tyid is not None:
                return ('T', tyid, v[2])
            return v
        # navigate, materialising (and storing back) lazily expanded parts
        nv, out = self._nav_read(st, v, path, 0)
        if nv is not v:
            st.cells[cell] = nv
        if out[0] == 'T' and out[1] is None and tyid is not None:
            return ('T', tyid, out[2])
        return out

    def _nav_read(self, st, v, path, i):
        """returns (possibly expanded v, value at path)"""
        if i == len(path):
            return v, v
        e = path[i]
        if v[0] == 'T':
            v2 = self.expand(v)
            if v2 is v or v2[0] == 'T':
                return v, ('T', None, None)
            v = v2
        k = v[0]
        if isinstance(e, int):
            if k == 'A':
                if e >= len(v[1]):
                    return v, ('T', None, None)
                sub_, out = self._nav_read(st, v[1][e], path, i + 1)
                if sub_ is not v[1][e]:
                    v = ('A', v[1][:e] + (sub_,) + v[1][e + 1:])
                return v, out
            return v, ('T', None, None)
        tag = e[0]
        if tag == 'v':
            if k == 'E':
                allowed = st.erf.get(v[1]) if v[1] is not None else None
                for j, (vi, fs) in enumerate(v[2]):
                    if vi == e[1]:
                        if allowed is not None and vi not in allowed:
                            return v, BOT
                        a = ('A', fs)
                        sub_, out = self._nav_read(st, a, path, i + 1)
                        if sub_ is not a:
                            v = ('E', v[1], v[2][:j] + ((vi, sub_[1]),) + v[2][j + 1:])
                        return v, out
                return v, BOT
            if k == 'A':   # struct downcast (coroutine states etc.)
                return self._nav_read(st, v, path, i + 1)
            return v, ('T', None, None)
        if tag == 'i':
            if k == 'S':
                if v[3] is not None and 0 <= e[1] < len(v[3]):
                    sub_, out = self._nav_read(st, v[3][e[1]], path, i + 1)
                    if sub_ is not v[3][e[1]]:
                        v = ('S', v[1], v[2], v[3][:e[1]] + (sub_,) + v[3][e[1] + 1:])
                    return v, out
                _, out = self._nav_read(st, v[2], path, i + 1)
                return v, out
            return v, ('T', None, None)
        if tag == 'i*':
            if k == 'S':
                el = v[2]
                if v[3] is not None:
                    iv = e[1]
                    items = v[3]
                    if iv is not None and iv[0] == 'I':
                        lo, hi = max(iv[1], 0), min(iv[2], len(items) - 1)
                        items = items[lo:hi + 1] if lo <= hi else ()
                    el = BOT
                    for it in items:
                        el = join(el, it)
                    if el == BOT:
                        el = v[2]
                    if i + 1 == len(path) and iv is not None and iv[0] == 'I' and iv[4] is not None and el != BOT and el[0] == 'I' \
                            and len(v[3]) >= 2 and all(x[0] == 'I' and x[1] == x[2] for x in v[3]):
                        # lookup in a constant table with a symbolic index: keep  table[index]  as a term
                        ints = tuple(x[1] for x in v[3])
                        tid = self.table_ids.get(ints)
                        if tid is None:
                            tid = len(self.table_ids) + 1
                            self.table_ids[ints] = tid
                            self.tables[tid] = ints
                        tt = mkterm('tbl', T('c', tid), iv[4])
                        if tt is not None:
                            el = self.reg(mk_int(el[1], el[2], el[3], tt))
                _, out = self._nav_read(st, el, path, i + 1)
                return v, out
            return v, ('T', None, None)
        return v, ('T', None, None)

    def write_lv(self, st, lv, val, weak=False):
        if lv is None:
            return
        cell, path = lv
        if not path:
            if weak and cell in st.cells:
                st.cells[cell] = join(st.cells[cell], val)
            else:
                st.cells[cell] = val
            return
        old = st.cells.get(cell)
        if old is None:
            if cell[0] == 'o':
                self.pointee_init(st, cell, None)
                old = st.cells[cell]
            else:
                old = ('T', None, None)
        st.cells[cell] = self._nav_write(st, old, path, 0, val, weak)

    def _nav_write(self, st, v, path, i, val, weak):
        if i == len(path):
            return join(v, val) if weak else val
        e = path[i]
        if v[0] == 'T':
            v2 = self.expand(v)
            if v2 is v or v2[0] == 'T':
                return v    # cannot represent: stays unknown (sound: T covers everything)
            v = v2
        k = v[0]
        if isinstance(e, int):
            if k == 'A' and e < len(v[1]):
                return ('A', v[1][:e] + (self._nav_write(st, v[1][e], path, i + 1, val, weak),) + v[1][e + 1:])
            return ('T', None, None)
        tag = e[0]
        if tag == 'v':
            if k == 'E':
                out = []
                found = False
                for vi, fs in v[2]:
                    if vi == e[1]:
                        found = True
                        a = self._nav_write(st, ('A', fs), path, i + 1, val, weak)
                        out.append((vi, a[1] if a[0] == 'A' else fs))
                    else:
                        out.append((vi, fs))
                if not found:
                    return v
                return ('E', v[1], tuple(out))
            if k == 'A':
                return self._nav_write(st, v, path, i + 1, val, weak)
            return ('T', None, None)
        if tag == 'i':
            if k == 'S':
                if v[3] is not None and 0 <= e[1] < len(v[3]):
                    it = self._nav_write(st, v[3][e[1]], path, i + 1, val, weak)
                    return ('S', v[1], join(v[2], it), v[3][:e[1]] + (it,) + v[3][e[1] + 1:])
                it = self._nav_write(st, v[2], path, i + 1, val, True)
                return ('S', v[1], it, None)
            return ('T', None, None)
        if tag == 'i*':
            if k == 'S':
                it = self._nav_write(st, v[2], path, i + 1, val, True)
                items = None
                if v[3] is not None:
                    items = tuple(self._nav_write(st, x, path, i + 1, val, True) for x in v[3])
                return ('S', v[1], it, items)
            return ('T', None, None)
        return ('T', None, None)

    # ---- operands
    def const_val(self, frame, o):
        v = o['v']
        tyid = o['ty']
        ty = self.types.get(tyid)
        if 'int' in v:
            c = int(v['int'])
            if ty['k'] == 'int':
                b = ty['bits']
                if c >= 1 << (b - 1):
                    c -= 1 << b
                return const_int(c)
            if ty['k'] in ('uint', 'bool', 'char'):
                return const_int(c)
            if ty['k'] == 'float':
                import struct
                if ty['bits'] == 64:
                    f = struct.unpack('<d', struct.pack('<Q', c))[0]
                elif ty['bits'] == 32:
                    f = struct.unpack('<f', struct.pack('<I', c))[0]
                else:
                    return ('T', tyid, None)
                if f != f:
                    return ('F', INF, -INF, True, None)
                return ('F', f, f, False, None)
            if ty['k'] == 'adt':
                # scalar-layout ADT constant (e.g. fieldless enum / newtype): discriminant-like
                return self.scalar_adt_const(ty, tyid, c)
            return ('T', tyid, None)
        if 'zst' in v:
            if ty['k'] == 'adt' and ty['ak'] == 'enum':
                return ('T', tyid, None)
            if ty['k'] == 'adt' and ty['ak'] == 'struct':
                e = self.expand(('T', tyid, None))
                return e
            return ('A', ())
        if 'fn' in v:
            return ('A', ())
        if 'bytes' in v:
            bs = bytes.fromhex(v['bytes'])
            items = tuple(const_int(b) for b in bs) if len(bs) <= 256 else None
            el = BOT
            for b in set(bs):
                el = join(el, const_int(b))
            if el == BOT:
                el = ('T', self.types.u8(), None)
            import hashlib
            cell = ('k', 'bytes', v['bytes'][:64] if len(bs) <= 32 else hashlib.sha1(bs).hexdigest(), len(bs))
            return ('Rk', cell, ('S', const_int(len(bs)), el, items), bs)
        if 'ptr' in v or 'alloc' in v:
            key = v.get('ptr', v.get('alloc'))
            off = v.get('off', 0)
            pointee = self.types.pointee(ty) if 'ptr' in v else tyid
            val = self.alloc_value(key, off, pointee, v.get('len'))
            if val[0] == 'T' and o.get('promoted'):
                # a promoted constant whose allocation we cannot decode (struct layout unknown):
                # interpret the promoted body instead
                pb = self.prog.bodies.get(o['promoted'])
                pv = self.eval_promoted(pb) if pb is not None else None
                if pv is not None:
                    return pv
            if 'alloc' in v:
                return val
            cell = ('k', 'alloc', key, off)
            return ('Rk', cell, val, None)
        if 'promoted' in v:
            pb = self.prog.bodies.get(v['promoted'])
            if pb is not None:
                val = self.eval_promoted(pb)
                if val is not None:
                    return val
            return ('T', tyid, None)
        return ('T', tyid, None)

    def scalar_adt_const(self, ty, tyid, c):
        if ty['ak'] == 'enum':
            for vi, vv in enumerate(ty['variants']):
                if vv['discr'] is not None and int(vv['discr']) == c and not vv['fields']:
                    return ('E', None, ((vi, ()),))
            return ('T', tyid, None)
        fs = ty['variants'][0]['fields'] if ty['variants'] else []
        if len(fs) == 1 and 'ty' in fs[0]:
            inner = self.types.get(fs[0]['ty'])
            if inner['k'] in ('uint', 'int', 'bool', 'char'):
                return ('A', (const_int(c),))
        return ('T', tyid, None)

    def alloc_value(self, key, off, tyid, slice_len=None):
        """decode a constant allocation as a value of type tyid (ints / floats / arrays / slices)"""
        a = self.prog.allocs.get(key)
        if a is None or a.get('k') != 'mem' or tyid is None:
            return ('T', tyid, None)
        ty = self.types.get(tyid)
        data = bytes.fromhex(a['bytes'])
        return self._decode(a, data, off, ty, tyid, slice_len)

    def _decode(self, a, data, off, ty, tyid, slice_len=None, depth=0):
        import struct
        k = ty['k']
        if k in ('uint', 'int', 'bool', 'char'):
            n = ty['bits'] // 8 if k in ('uint', 'int') else (1 if k == 'bool' else 4)
            if off + n > len(data):
                return ('T', tyid, None)
            c = int.from_bytes(data[off:off + n], 'little', signed=(k == 'int'))
            return const_int(c)
        if k == 'float':
            n = ty['bits'] // 8
            if off + n > len(data):
                return ('T', tyid, None)
            f = struct.unpack('<d' if n == 8 else '<f', data[off:off + n])[0]
            return ('F', f, f, False, None) if f == f else ('F', INF, -INF, True, None)
        if k in ('array', 'slice', 'str'):
            et = self.types.seq_elem(ty)
            ety = self.types.get(et)
            n = ty.get('len') if k == 'array' else slice_len
            esz = self.type_size(ety)
            if n is None or esz is None:
                return ('T', tyid, None)
            items = []
            el = BOT
            for i in range(n):
                v = self._decode(a, data, off + i * esz, ety, et, None, depth + 1)
                items.append(v)
                el = join(el, v)
            if el == BOT:
                el = ('T', et, None)
            return ('S', const_int(n), el, tuple(items) if n <= 512 else None)
        if k == 'ref':
            for po, tgt in a.get('ptrs', []):
                if po == off:
                    pt = self.types.get(ty['to'])
                    ln = None
                    if pt['k'] in ('slice', 'str'):
                        ln = int.from_bytes(data[off + 8:off + 16], 'little')
                    ta = self.prog.allocs.get(tgt)
                    if ta and ta.get('k') == 'mem' and depth < 4:
                        tdata = bytes.fromhex(ta['bytes'])
                        val = self._decode(ta, tdata, 0, pt, ty['to'], ln, depth + 1)
                        raw = tdata[:ln] if (pt['k'] == 'str' and ln is not None) else None
                        return ('Rk', ('k', 'alloc', tgt, 0), val, raw)
            return ('T', tyid, None)
        if k == 'tuple' and not ty['elems']:
            return ('A', ())
        if k == 'tuple' and ty.get('offs') is not None and len(ty['offs']) == len(ty['elems']) and depth < 6:
            # layout exported by the driver (field offsets of the monomorphic tuple)
            return ('A', tuple(self._decode(a, data, off + o_, self.types.get(et), et, None, depth + 1) for o_, et in zip(ty['offs'], ty['elems'])))
        return ('T', tyid, None)

    def type_size(self, ty):
        if ty['k'] == 'tuple' and ty.get('size') is not None:
            return ty['size']
        k = ty['k']
        if k in ('uint', 'int', 'float'):
            return ty['bits'] // 8
        if k == 'bool':
            return 1
        if k == 'char':
            return 4
        if k == 'ref':
            pt = self.types.get(ty['to'])
            return 16 if pt['k'] in ('slice', 'str', 'dyn') else 8
        if k == 'array':
            e = self.type_size(self.types.get(ty['elem']))
            return None if e is None or ty['len'] is None else e * ty['len']
        return None

    def eval_promoted(self, pb):
        """evaluate a promoted body that just builds a constant (used for coroutine bodies)"""
        try:
            st = State()
            fr = Frame(900, pb, (), self.pathid(('promoted', pb['id'])), self.info(pb))
            outs = self.run_body(fr, [st], quiet=True)
            if len(outs) == 1:
                st2, v = outs[0]
                if v[0] == 'R' and v[1] is not None and v[1][0] == 900:
                    # reference to a local of the promoted body: intern the pointee as a constant
                    pv = self.deep_resolve(st2, self.read_lv(st2, (v[1], v[2]), None))
                    return ('Rk', ('k', 'promoted', pb['id']), pv, None)
                return v
        except AnalysisError:
            pass
        return None

    def intern_const_ref(self, st, v):
        """('Rk', cell, value, raw) -> real reference to an immutable constant cell"""
        cell = v[1]
        if cell not in self.kcells:
            self.kcells[cell] = v[2]
            if len(v) > 3 and v[3] is not None:
                self.kraw[cell] = v[3]
        return ('R', cell, (), False)

    def operand(self, st, frame, o):
        k = o['k']
        if k == 'const':
            v = self.const_val(frame, o)
            if v[0] == 'Rk':
                return self.intern_const_ref(st, v)
            return v
        pl = o['pl']
        if not pl['p']:
            v = st.cells.get((frame.depth, pl['l']))
            if v is None:
                return ('T', frame.body['locals'][pl['l']], None)
            if v[0] == 'T' and v[1] is None:
                return ('T', frame.body['locals'][pl['l']], v[2])
            return v
        lv = self.lvalue(st, frame, pl)
        return self.read_lv(st, lv, self.place_ty(frame, pl))

    def scalar(self, st, v, tyid=None):
        """resolved scalar view ('I' or 'F') of a value"""
        if v[0] == 'T':
            if v[1] is None and tyid is not None:
                v = ('T', tyid, v[2])
            v = self.expand(v)
        if v[0] in ('I', 'F'):
            return st.resolve(v)
        return v


def sub(origin, x):
    return None if origin is None else (origin, x)


def tdiv(a, b):
    q = abs(a) // abs(b)
    return q if (a >= 0) == (b >= 0) else -q


def f32_round(x, up):
    """round a python float to f32 precision, outward in the given direction"""
    import struct
    if x != x or x in (INF, -INF):
        return x
    try:
        r = struct.unpack('<f', struct.pack('<f', x))[0]
    except OverflowError:
        return INF if x > 0 else -INF
    if up and r < x:
        r = f32_next(r, True)
    elif not up and r > x:
        r = f32_next(r, False)
    return r


def f32_rn(x):
    import struct
    if x != x or x in (INF, -INF):
        return x
    try:
        return struct.unpack('<f', struct.pack('<f', x))[0]
    except OverflowError:
        return INF if x > 0 else -INF


def f32_next(r, up):
    import struct
    if r == 0.0:
        tiny = struct.unpack('<f', struct.pack('<I', 1))[0]
        return tiny if up else -tiny
    bits = struct.unpack('<I', struct.pack('<f', r))[0]
    if (r > 0) == up:
        bits += 1
    else:
        bits -= 1
    return struct.unpack('<f', struct.pack('<I', bits))[0]


TERM_LIMIT = 24          # symbolic terms larger than this are replaced by an opaque site atom
CMP_NEG = {'Eq': 'Ne', 'Ne': 'Eq', 'Lt': 'Ge', 'Ge': 'Lt', 'Le': 'Gt', 'Gt': 'Le'}
CMP_SWAP = {'Eq': 'Eq', 'Ne': 'Ne', 'Lt': 'Gt', 'Gt': 'Lt', 'Le': 'Ge', 'Ge': 'Le'}


def mkterm(op, *args):
    for a in args:
        if a is None:
            return None
    t = T(op, *args)
    if term_size(t, TERM_LIMIT) > TERM_LIMIT:
        return None
    return t


def int_binop(op, a, b, ty):
    """a, b resolved 'I' values; returns (result in Z or wrapped, overflow_possible)"""
    lo_t, hi_t = int_range(ty)
    al, ah, bl, bh = a[1], a[2], b[1], b[2]
    zeros = 0
    if op in ('Add', 'AddWithOverflow', 'AddUnchecked'):
        lo, hi = al + bl, ah + bh
        if al >= 0 and bl >= 0:
            # low bits that are zero in both stay zero
            common = a[3] & b[3]
            tz = 0
            while tz < 64 and (common >> tz) & 1:
                tz += 1
            zeros = (1 << tz) - 1
    elif op in ('Sub', 'SubWithOverflow', 'SubUnchecked'):
        lo, hi = al - bh, ah - bl
    elif op in ('Mul', 'MulWithOverflow', 'MulUnchecked'):
        c = (al * bl, al * bh, ah * bl, ah * bh)
        lo, hi = min(c), max(c)
        if al >= 0 and bl >= 0:
            tza = tzb = 0
            while tza < 64 and (a[3] >> tza) & 1:
                tza += 1
            while tzb < 64 and (b[3] >> tzb) & 1:
                tzb += 1
            if ah == 0 or bh == 0:
                tza = 0
                tzb = 0
            zeros = (1 << (tza + tzb)) - 1
    elif op == 'Div':
        if bl <= 0 <= bh:
            # divisor may be zero: exclude (guarded by a preceding Assert)
            cands = []
            if bl < 0:
                cands += [(bl, -1)]
            if bh > 0:
                cands += [(1, bh)]
            if not cands:
                return BOT, False
        else:
            cands = [(bl, bh)]
        vals = []
        for (l, h) in cands:
            for x in (al, ah):
                for y in (l, h):
                    vals.append(tdiv(x, y))
            if al <= 0 <= ah:
                vals.append(0)
        lo, hi = min(vals), max(vals)
    elif op == 'Rem':
        m = max(abs(bl), abs(bh))
        if m == 0:
            return BOT, False
        if al >= 0:
            lo, hi = 0, min(ah, m - 1)
            if bl == bh and bl > 0 and ah - al < bl and (al % bl) <= (ah % bl):
                lo, hi = al % bl, ah % bl
        elif ah <= 0:
            lo, hi = -min(-al, m - 1), 0
        else:
            lo, hi = -min(-al, m - 1), min(ah, m - 1)
    elif op == 'BitAnd':
        if al >= 0 and bl >= 0:
            zeros = a[3] | b[3]
            lo, hi = 0, min(ah, bh)
            hi = min(hi, max_from_zeros(zeros, hi))
            if al == ah and bl == bh:
                lo = hi = al & bl
        elif bl >= 0:
            lo, hi, zeros = 0, bh, b[3]
        elif al >= 0:
            lo, hi, zeros = 0, ah, a[3]
        else:
            lo, hi = lo_t, hi_t
    elif op in ('BitOr', 'BitXor'):
        if al >= 0 and bl >= 0:
            zeros = a[3] & b[3]
            nb = max(ah.bit_length(), bh.bit_length())
            hi = (1 << nb) - 1
            hi = min(hi, max_from_zeros(zeros, hi))
            lo = max(al, bl) if op == 'BitOr' else 0
            if al == ah and bl == bh:
                lo = hi = (al | bl) if op == 'BitOr' else (al ^ bl)
        else:
            lo, hi = lo_t, hi_t
    elif op in ('Shl', 'ShlUnchecked'):
        bits = ty['bits'] if 'bits' in ty else 64
        sl, sh = max(bl, 0), min(bh, bits - 1)
        if sl > sh:
            return BOT, False
        if al >= 0:
            lo, hi = al << sl, ah << sh
            if hi > hi_t:
                # bits are shifted out (no panic); the result is still a multiple of 2^sl
                lo, hi = (0, hi_t) if lo_t == 0 else (lo_t, hi_t - (hi_t % (1 << sl)))
                zeros = (1 << sl) - 1 if lo_t == 0 else 0
            else:
                zeros = ((1 << sl) - 1)
                if sl == sh:
                    zeros |= (a[3] << sl)
        else:
            lo, hi = min(al << sl, al << sh), max(ah << sl, ah << sh)
            if lo < lo_t or hi > hi_t:
                lo, hi = lo_t, hi_t - (hi_t % (1 << sl))
    elif op in ('Shr', 'ShrUnchecked'):
        bits = ty['bits'] if 'bits' in ty else 64
        sl, sh = max(bl, 0), min(bh, bits - 1)
        if sl > sh:
            return BOT, False
        if al >= 0:
            lo, hi = al >> sh, ah >> sl
            if sl == sh:
                zeros = a[3] >> sl
        else:
            lo, hi = min(al >> sl, al >> sh), max(ah >> sl, ah >> sh)      # arithmetic shift is monotone
    else:
        return None, False
    ovf = lo < lo_t or hi > hi_t
    return (lo, hi, zeros), ovf


def float_binop(op, a, b, bits):
    al, ah, bl, bh = a[1], a[2], b[1], b[2]
    nan = a[3] or b[3]
    if al > ah or bl > bh:   # only-NaN operand
        return ('F', INF, -INF, True, None)

    def mul(x, y):
        if (x == 0 and y in (INF, -INF)) or (y == 0 and x in (INF, -INF)):
            return None
        return x * y
    if op == 'Add':
        if (al == -INF and bh == INF) or (ah == INF and bl == -INF):
            nan = True
        lo, hi = al + bl, ah + bh
    elif op == 'Sub':
        if (al == -INF and bl == -INF) or (ah == INF and bh == INF):
            nan = True
        lo, hi = al - bh, ah - bl
    elif op == 'Mul':
        cs = [mul(al, bl), mul(al, bh), mul(ah, bl), mul(ah, bh)]
        if any(c is None for c in cs):
            nan = True
            cs = [c for c in cs if c is not None] + [0.0]
        lo, hi = min(cs), max(cs)
    elif op == 'Div':
        if bl <= 0 <= bh:
            if al <= 0 <= ah:
                nan = True
            return ('F', -INF, INF, nan, None)
        cs = []
        for x in (al, ah):
            for y in (bl, bh):
                if x in (INF, -INF) and y in (INF, -INF):
                    nan = True
                    continue
                cs.append(x / y)
        if not cs:
            return ('F', -INF, INF, True, None)
        lo, hi = min(cs), max(cs)
    elif op == 'Rem':
        m = max(abs(bl), abs(bh))
        if bl <= 0 <= bh or ah == INF or al == -INF:
            nan = True
        if al >= 0:
            lo, hi = 0.0, min(ah, m)
        elif ah <= 0:
            lo, hi = -min(-al, m), 0.0
        else:
            lo, hi = -min(-al, m), min(ah, m)
        return ('F', lo, hi, nan, None)
    else:
        return None
    if lo != lo or hi != hi:
        return ('F', -INF, INF, True, None)
    # IEEE round-to-nearest is monotone: the correctly rounded results at the interval corners
    # (what python computes in binary64) bound the correctly rounded result of every inner point;
    # binary32 operations equal the binary64 result rounded once more to nearest
    if bits == 32:
        lo, hi = f32_rn(lo), f32_rn(hi)
    return ('F', lo, hi, nan, None)


def cmp_decide(op, a, b):
    """returns True/False/None for interval values (ints or floats w/o nan)"""
    al, ah, bl, bh = a[1], a[2], b[1], b[2]
    if op == 'Eq':
        if al == ah == bl == bh:
            return True
        if ah < bl or bh < al:
            return False
    elif op == 'Ne':
        r = cmp_decide('Eq', a, b)
        return None if r is None else not r
    elif op == 'Lt':
        if ah < bl:
            return True
        if al >= bh:
            return False
    elif op == 'Le':
        if ah <= bl:
            return True
        if al > bh:
            return False
    elif op == 'Gt':
        return cmp_decide('Lt', b, a)
    elif op == 'Ge':
        return cmp_decide('Le', b, a)
    return None


_site_cache = {}


def term_sites(t):
    """set of (pathid, bb) creation sites mentioned in a term / origin"""
    r = _site_cache.get(t)
    if r is not None:
        return r
    out = set()
    stack = [t]
    while stack:
        x = stack.pop()
        if isinstance(x, tuple):
            if len(x) == 4 and x[0] == 's':
                out.add((x[1], x[2]))
            else:
                stack.extend(x)
    r = frozenset(out)
    _site_cache[t] = r
    return r


CMPS = ('Eq', 'Ne', 'Lt', 'Le', 'Gt', 'Ge')


class InterpOps:
    """mixin: rvalues, refinement"""

    # ---- term base intervals
    def reg(self, v):
        t = v[4]
        if t is None or t[0] == 'c':
            return v
        tb = self.tbase
        old = tb.get(t)
        if v[0] == 'I':
            new = (v[1], v[2], v[3])
            if old is None:
                tb[t] = new
            elif old != new:
                lo, hi = min(old[0], new[0]), max(old[1], new[1])
                tb[t] = (lo, hi, old[2] & new[2] if lo >= 0 else 0)
        else:
            new = (v[1], v[2], v[3])
            if old is None:
                tb[t] = new
            elif old != new:
                tb[t] = (min(old[0], new[0]), max(old[1], new[1]), old[2] or new[2])
        return v

    def ival(self, st, t):
        if t[0] == 'c':
            c = t[1]
            if isinstance(c, float):
                return (c, c, False)
            return (c, c, ~c & ((1 << 130) - 1) if c >= 0 else 0)
        r = st.rf.get(t)
        b = self.tbase.get(t)
        if r is None:
            return b
        if b is None:
            return r
        if isinstance(r[2], bool) or isinstance(b[2], bool):
            return (max(r[0], b[0]), min(r[1], b[1]), r[2] and b[2])
        lo = max(r[0], b[0])
        return (lo, min(r[1], b[1]), (r[2] | b[2]) if lo >= 0 else 0)

    def eval_term(self, st, t, depth=0):
        """re-evaluate a (float) term from the current refinements of its atoms: ('F', lo, hi, nan)
        or ('I', lo, hi) or None"""
        if t is None or depth > 16:
            return None
        op = t[0]
        if op == 'c':
            if t[1].__class__ is float:
                return ('F', t[1], t[1], False, None)
            return ('I', t[1], t[1], 0, None)
        if op in ('Add', 'Sub', 'Mul', 'Div') and len(t) == 3:
            a, b = self.eval_term(st, t[1], depth + 1), self.eval_term(st, t[2], depth + 1)
            own = self.ival(st, t)
            r = None
            if a is not None and b is not None and a[0] == 'F' and b[0] == 'F':
                r = float_binop(op, a, b, 64)
            if r is None:
                if own is None:
                    return None
                return ('F', own[0], own[1], own[2], None) if isinstance(own[2], bool) else ('I', own[0], own[1], 0, None)
            if own is not None and isinstance(own[2], bool):
                r = ('F', max(r[1], own[0]), min(r[2], own[1]), r[3] and own[2], None)
            return r
        if op == 'itof':
            a = self.eval_term(st, t[1], depth + 1)
            if a is None:
                iv = self.ival(st, t[1])
                if iv is None:
                    return None
                a = ('I', iv[0], iv[1], 0, None)
            if a[0] != 'I':
                return None
            return ('F', float(a[1]), float(a[2]), False, None)
        iv = self.ival(st, t)
        if iv is None:
            return None
        if isinstance(iv[2], bool):
            return ('F', iv[0], iv[1], iv[2], None)
        return ('I', iv[0], iv[1], 0, None)

    def refine_term(self, st, t, lo, hi, zeros=0, depth=0, keep_nan=False):
        """intersect term t with [lo,hi]; returns False when empty"""
        if t is None or t[0] == 'dvhint':
            return True
        if t[0] == 'c':
            return lo <= t[1] <= hi
        cur = self.ival(st, t)
        if cur is None:
            cur = (lo, hi, 0)
        isf = isinstance(cur[2], bool)
        if not isf and (lo.__class__ is float or hi.__class__ is float):
            # an integer term compared with a float bound
            lo = cur[0] if lo == -INF else (math.ceil(lo) if lo.__class__ is float else lo)
            hi = cur[1] if hi == INF else (math.floor(hi) if hi.__class__ is float else hi)
        nlo, nhi = max(cur[0], lo), min(cur[1], hi)
        if nlo > nhi:
            if isf and keep_nan and cur[2]:
                st.rf[t] = (INF, -INF, True)      # only NaN remains
                return True
            return False
        if isf:
            # a comparison that holds excludes NaN; the negation of one does not
            st.rf[t] = (nlo, nhi, bool(cur[2]) and keep_nan)
        else:
            z = (cur[2] | zeros) if nlo >= 0 else 0
            if nlo >= 0 and z:
                nhi2 = max_from_zeros(z, nhi)
                if nhi2 < nlo:
                    return False
                nhi = nhi2
            st.rf[t] = (nlo, nhi, z)
        if depth > 6 or isf:
            return True
        # backward propagation through simple structure
        op = t[0]
        if op in ('Add', 'Sub', 'Mul', 'Shr') and len(t) == 3:
            x, y = t[1], t[2]
            if y[0] == 'c' and isinstance(y[1], int):
                k = y[1]
                if op == 'Add':
                    return self.refine_term(st, x, nlo - k, nhi - k, 0, depth + 1)
                if op == 'Sub':
                    return self.refine_term(st, x, nlo + k, nhi + k, 0, depth + 1)
                if op == 'Mul' and k > 0:
                    return self.refine_term(st, x, -((-nlo) // k), nhi // k, 0, depth + 1)
                if op == 'Shr' and k >= 0 and nlo >= 0:
                    return self.refine_term(st, x, nlo << k, ((nhi + 1) << k) - 1, 0, depth + 1)
            elif x[0] == 'c' and isinstance(x[1], int):
                k = x[1]
                if op == 'Add':
                    return self.refine_term(st, y, nlo - k, nhi - k, 0, depth + 1)
                if op == 'Sub':
                    return self.refine_term(st, y, k - nhi, k - nlo, 0, depth + 1)
                if op == 'Mul' and k > 0:
                    return self.refine_term(st, y, -((-nlo) // k), nhi // k, 0, depth + 1)
        return True

    def assume(self, st, t, truth):
        """assume boolean term t has the given truth value; False = infeasible"""
        if t is None:
            return True
        op = t[0]
        if op == 'c':
            return (t[1] != 0) == truth
        if op == 'Not':
            return self.assume(st, t[1], not truth)
        if op == 'And':
            if truth:
                return self.assume(st, t[1], True) and self.assume(st, t[2], True)
            st.facts = st.facts | {('NotBoth', t[1], t[2])}
            return self._bool_rf(st, t, truth)
        if op == 'Or':
            if not truth:
                return self.assume(st, t[1], False) and self.assume(st, t[2], False)
            return self._bool_rf(st, t, truth)
        if op in CMPS:
            neg = False
            if not truth:
                op = CMP_NEG[op]
                neg = op in ('Lt', 'Le', 'Gt', 'Ge')
            if not self._bool_rf(st, t, truth):
                return False
            return self.assume_cmp(st, op, t[1], t[2], negated=neg)
        if op == 'isfin':
            if not self._bool_rf(st, t, truth):
                return False
            if truth:
                return self.refine_term(st, t[1], -MAXF, MAXF)
            return True
        if op == 'inrange':
            # lo <= x <= hi (or < hi): true gives both comparisons, false only the flag
            if not self._bool_rf(st, t, truth):
                return False
            if truth:
                return self.assume_cmp(st, 'Ge', t[1], t[2]) and self.assume_cmp(st, 'Le' if t[4][1] else 'Lt', t[1], t[3])
            return True
        return self._bool_rf(st, t, truth)

    def _bool_rf(self, st, t, truth):
        v = 1 if truth else 0
        cur = st.rf.get(t)
        if cur is not None and not (cur[0] <= v <= cur[1]):
            return False
        st.rf[t] = (v, v, 0)
        return True

    def assume_cmp(self, st, op, ta, tb, negated=False):
        """negated: `op` is the complement of a comparison found false (for floats the operands
        may then still be NaN)"""
        if op in ('Eq', 'Ne'):
            # the path already established the opposite (a == b and a != b cannot both hold, NaN or not)
            ng = 'Ne' if op == 'Eq' else 'Eq'
            if (ng, ta, tb) in st.facts or (ng, tb, ta) in st.facts:
                return False
        A = self.ival(st, ta)
        B = self.ival(st, tb)
        if not (negated and ((A is not None and isinstance(A[2], bool) and A[2]) or (B is not None and isinstance(B[2], bool) and B[2]))):
            st.facts = st.facts | {(op, ta, tb)}
        if A is None and B is None:
            return True
        if A is None:
            A = (-INF, INF, True) if isinstance(B[2], bool) else (-(1 << 130), 1 << 130, 0)
        if B is None:
            B = (-INF, INF, True) if isinstance(A[2], bool) else (-(1 << 130), 1 << 130, 0)
        isf = isinstance(A[2], bool) or isinstance(B[2], bool)
        if isf:
            # floats: comparison true implies neither is NaN
            al, ah, bl, bh = A[0], A[1], B[0], B[1]
            if op == 'Ne':
                # k * float(x) != 0  (k a non-zero constant chain)  =>  x != 0
                for p_, q_ in ((ta, tb), (tb, ta)):
                    if q_[0] == 'c' and q_[1] == 0:
                        x = p_
                        while x is not None and x[0] in ('Mul', 'Div') and len(x) == 3:
                            if x[2][0] == 'c' and x[2][1] != 0:
                                x = x[1]
                            elif x[0] == 'Mul' and x[1][0] == 'c' and x[1][1] != 0:
                                x = x[2]
                            else:
                                x = None
                        if x is not None and x[0] == 'itof':
                            if not self.assume_cmp(st, 'Ne', x[1], T('c', 0)):
                                return False
                            ev = self.eval_term(st, p_)
                            if ev is not None and ev[0] == 'F' and ev[1] <= ev[2]:
                                if not self.refine_term(st, p_, ev[1], ev[2], keep_nan=True):
                                    return False
                return True
            kn = negated
            if kn and ((A[2] is True and isinstance(A[2], bool)) or (B[2] is True and isinstance(B[2], bool))):
                # a NaN operand makes the original comparison false whatever the other value is:
                # nothing can be learnt about the bounds
                return True
            if op in ('Lt', 'Le'):
                strict = op == 'Lt'      # (negated or not: neither operand can be NaN here, so not(a >= b) is a < b)
                ok = self.refine_term(st, ta, -INF, fdown(bh) if strict else bh, keep_nan=negated) and \
                    self.refine_term(st, tb, fup(al) if strict else al, INF, keep_nan=negated)
                if op == 'Lt' and ah <= bl and al == ah == bl == bh:
                    return False
            elif op in ('Gt', 'Ge'):
                strict = op == 'Gt'
                ok = self.refine_term(st, ta, fup(bl) if strict else bl, INF, keep_nan=negated) and \
                    self.refine_term(st, tb, -INF, fdown(ah) if strict else ah, keep_nan=negated)
            else:
                lo, hi = max(al, bl), min(ah, bh)
                ok = self.refine_term(st, ta, lo, hi) and self.refine_term(st, tb, lo, hi)
            return ok
        al, ah, bl, bh = A[0], A[1], B[0], B[1]
        if op == 'Lt':
            return self.refine_term(st, ta, al, bh - 1) and self.refine_term(st, tb, al + 1, bh)
        if op == 'Le':
            return self.refine_term(st, ta, al, bh) and self.refine_term(st, tb, al, bh)
        if op == 'Gt':
            return self.refine_term(st, ta, bl + 1, ah) and self.refine_term(st, tb, bl, ah - 1)
        if op == 'Ge':
            return self.refine_term(st, ta, bl, ah) and self.refine_term(st, tb, bl, ah)
        if op == 'Eq':
            lo, hi = max(al, bl), min(ah, bh)
            if lo > hi:
                return False
            z = (A[2] | B[2]) if lo >= 0 else 0
            if not (self.refine_term(st, ta, lo, hi, z) and self.refine_term(st, tb, lo, hi, z)):
                return False
            # x & m == 0  =>  bits of m are zero in x
            for p, q in ((ta, tb), (tb, ta)):
                if q[0] == 'c' and q[1] == 0 and p[0] == 'BitAnd' and p[2][0] == 'c' and isinstance(p[2][1], int) and p[2][1] >= 0:
                    xi = self.ival(st, p[1])
                    if xi is not None and xi[0] >= 0:
                        if not self.refine_term(st, p[1], xi[0], xi[1], p[2][1]):
                            return False
            return True
        if op == 'Ne':
            # x & 2^k != 0 and x < 2^(k+1)  =>  x >= 2^k
            for p_, q_ in ((ta, tb), (tb, ta)):
                if q_[0] == 'c' and q_[1] == 0 and p_[0] == 'BitAnd' and len(p_) == 3 and p_[2][0] == 'c' \
                        and isinstance(p_[2][1], int) and p_[2][1] > 0 and p_[2][1] & (p_[2][1] - 1) == 0:
                    xi = self.ival(st, p_[1])
                    m = p_[2][1]
                    if xi is not None and xi[0] >= 0 and xi[1] < 2 * m:
                        if not self.refine_term(st, p_[1], max(xi[0], m), xi[1]):
                            return False
            if bl == bh:
                if al == ah == bl:
                    return False
                if al == bl:
                    return self.refine_term(st, ta, al + 1, ah)
                if ah == bl:
                    return self.refine_term(st, ta, al, ah - 1)
            if al == ah:
                if bl == al:
                    return self.refine_term(st, tb, bl + 1, bh)
                if bh == al:
                    return self.refine_term(st, tb, bl, bh - 1)
            return True
        return True

    # ---- rvalues
    def operand_ty(self, frame, o):
        if o['k'] == 'const':
            return o['ty']
        return self.place_ty(frame, o['pl'])

    def site(self, frame, bb, k):
        return ('s', frame.pathid, bb, k)

    def binop(self, st, frame, op, l, r, bb, idx):
        tyid = self.operand_ty(frame, l)
        ty = self.types.get(tyid) if tyid is not None else None
        a = self.scalar(st, self.operand(st, frame, l), tyid)
        b = self.scalar(st, self.operand(st, frame, r), self.operand_ty(frame, r))
        if a == BOT or b == BOT:
            return BOT
        if a[0] == 'I' and b[0] == 'I' and ty is not None and ty['k'] in ('int', 'uint', 'bool', 'char'):
            if op in CMPS:
                d = cmp_decide(op, a, b)
                if d is not None:
                    return const_int(1 if d else 0)
                return self.reg(mk_int(0, 1, 0, mkterm(op, a[4], b[4]) or T('o', self.site(frame, bb, idx))))
            if ty['k'] == 'bool' and op in ('BitAnd', 'BitOr', 'BitXor'):
                if op == 'BitAnd':
                    lo, hi = a[1] & b[1], a[2] & b[2]
                    t = mkterm('And', a[4], b[4])
                elif op == 'BitOr':
                    lo, hi = a[1] | b[1], a[2] | b[2]
                    t = mkterm('Or', a[4], b[4])
                else:
                    lo, hi = (a[1] ^ b[1], a[1] ^ b[1]) if (is_const(a) and is_const(b)) else (0, 1)
                    t = None
                return self.reg(mk_int(lo, hi, 0, t or T('o', self.site(frame, bb, idx))))
            res, ovf = int_binop(op, a, b, ty)
            if res is None:
                return ('T', None, None)
            if res == BOT:
                return BOT
            lo_t, hi_t = int_range(ty)
            base = op.replace('WithOverflow', '').replace('Unchecked', '')
            lo, hi, zeros = res
            if op == 'SubWithOverflow' and ovf and lo_t == 0 and hi <= hi_t and a[4] is not None and b[4] is not None \
                    and self.entails_le(st, b[4], a[4]):
                ovf = False           # b <= a is known from the path facts
                lo = max(lo, 0)
            if op.endswith('WithOverflow'):
                flag = mk_int(0 if (lo >= lo_t and hi <= hi_t) else 0, 1 if ovf else 0)
                if lo > hi_t or hi < lo_t:
                    flag = const_int(1)
                    val = mk_int(lo_t, hi_t)
                else:
                    val = self.reg(mk_int(max(lo, lo_t), min(hi, hi_t), zeros, mkterm(base, a[4], b[4])))
                return ('A', (val, flag))
            if ovf:
                if base in ('Add', 'Sub', 'Mul'):
                    # wrapping semantics of the unchecked MIR operator
                    return mk_int(lo_t, hi_t)
                lo, hi = max(lo, lo_t), min(hi, hi_t)
            t = mkterm(base, a[4], b[4]) or (T('o', self.site(frame, bb, idx)) if lo != hi else None)
            return self.reg(mk_int(lo, hi, zeros, t))
        if a[0] == 'F' and b[0] == 'F':
            bits = ty['bits'] if ty and ty['k'] == 'float' else 64
            if op in CMPS:
                d = None
                if not a[3] and not b[3] and a[1] <= a[2] and b[1] <= b[2]:
                    d = cmp_decide(op, a, b)
                elif (a[1] > a[2] or b[1] > b[2]):
                    d = (op == 'Ne')
                if d is not None:
                    return const_int(1 if d else 0)
                return self.reg(mk_int(0, 1, 0, mkterm(op, a[4] or self._fconst_term(a), b[4] or self._fconst_term(b)) or T('o', self.site(frame, bb, idx))))
            res = float_binop(op, a, b, bits)
            if res is None:
                return ('T', tyid, None)
            if op == 'Mul' and a[4] is not None and a[4] == b[4] and a[1] <= a[2]:
                # x * x: a square is never negative (the two operands are the same value)
                m = min(abs(a[1]), abs(a[2])) if (a[1] > 0 or a[2] < 0) else 0.0
                res = ('F', max(res[1], m * m if m != INF else res[1]), res[2], res[3], None)
            t = mkterm(op, a[4] or self._fconst_term(a), b[4] or self._fconst_term(b)) or T('o', self.site(frame, bb, idx))
            return self.reg((res[0], res[1], res[2], res[3], t))
        # pointer / unknown comparisons
        dt = None
        if op in CMPS:
            return mk_int(0, 1, 0, T('o', self.site(frame, bb, idx)))
        return ('T', dt, None)

    def _fconst_term(self, v):
        if v[0] == 'F' and v[1] == v[2] and not v[3]:
            return T('c', v[1])
        return None

    def cast(self, st, frame, ck, o, tyid, bb, idx):
        src_ty = self.operand_ty(frame, o)
        v = self.operand(st, frame, o)
        dty = self.types.get(tyid)
        if ck.startswith('IntToInt'):
            v = self.scalar(st, v, src_ty)
            if v[0] != 'I':
                return self.expand(('T', tyid, self.site(frame, bb, idx)))
            lo_t, hi_t = int_range(dty)
            if self.cast_events is not None and dty['k'] in ('int', 'uint'):
                self.cast_events.append((frame.body['name'], '%s:%s' % (frame.body['file'], frame.body['blocks'][bb]['s'][idx].get('sp')),
                                         (v[1], v[2]), dty['s'], frame.path, v[4]))
            if v[1] >= lo_t and v[2] <= hi_t:
                return v
            bits = dty['bits'] if 'bits' in dty else 64
            mod = 1 << bits
            if v[2] - v[1] >= mod:
                return mk_int(lo_t, hi_t)
            lo, hi = v[1] % mod, v[2] % mod
            if dty['k'] == 'int':
                if lo >= mod >> 1:
                    lo -= mod
                if hi >= mod >> 1:
                    hi -= mod
            if lo <= hi and ((v[1] - lo) // mod == (v[2] - hi) // mod):
                z = 0
                if v[1] >= 0 and lo >= 0:
                    z = v[3] & (mod - 1)
                return self.reg(mk_int(lo, hi, z, mkterm('trunc', v[4], T('c', bits), T('c', 1 if dty['k'] == 'int' else 0))))
            z = 0
            if v[1] >= 0 and dty['k'] != 'int':
                z = v[3] & (mod - 1)
            return self.reg(mk_int(lo_t, hi_t, z, mkterm('trunc', v[4], T('c', bits), T('c', 1 if dty['k'] == 'int' else 0))))
        if ck.startswith('IntToFloat'):
            v = self.scalar(st, v, src_ty)
            if v[0] != 'I':
                return ('F', -INF, INF, False, None)
            lo, hi = float(v[1]), float(v[2])
            if int(lo) > v[1]:
                lo = fdown(lo)
            if int(hi) < v[2]:
                hi = fup(hi)
            if dty['bits'] == 32:
                lo, hi = f32_round(lo, False), f32_round(hi, True)
            return self.reg(('F', lo, hi, False, mkterm('itof', v[4])))
        if ck.startswith('FloatToInt'):
            v = self.scalar(st, v, src_ty)
            lo_t, hi_t = int_range(dty)
            if v[0] != 'F':
                return mk_int(lo_t, hi_t)
            if v[1] > v[2]:
                return const_int(0)
            lo = lo_t if v[1] == -INF else max(lo_t, min(hi_t, int(v[1])))
            hi = hi_t if v[2] == INF else max(lo_t, min(hi_t, int(v[2])))
            if v[3]:
                lo, hi = min(lo, 0), max(hi, 0)
            return self.reg(mk_int(lo, hi, 0, mkterm('ftoi', v[4], T('c', dty['s']))))
        if ck.startswith('FloatToFloat'):
            v = self.scalar(st, v, src_ty)
            if v[0] != 'F':
                return ('F', -INF, INF, True, None)
            if dty['bits'] == 32:
                return ('F', f32_round(v[1], False), f32_round(v[2], True), v[3], mkterm('f32', v[4]))
            return v
        if ck.startswith('PointerCoercion') or ck.startswith('PtrToPtr') or ck.startswith('Transmute'):
            if v[0] in ('R',):
                return v
            if ck.startswith('PointerCoercion') and ('ReifyFnPointer' in ck or 'ClosureFnPointer' in ck):
                return ('T', tyid, None)
            if ck.startswith('Transmute'):
                return ('T', tyid, self.site(frame, bb, idx))
            return v if v[0] != 'T' else ('T', tyid, v[2])
        return ('T', tyid, self.site(frame, bb, idx))

    def unop(self, st, frame, op, x, bb, idx):
        tyid = self.operand_ty(frame, x)
        v = self.operand(st, frame, x)
        if op == 'PtrMetadata':
            v = self.expand(v)
            if v[0] == 'R' and v[1] is not None:
                tgt = self.read_lv(st, (v[1], v[2]), None)
                tgt = self.expand(tgt)
                if tgt[0] == 'S':
                    return st.resolve(tgt[1])
            return mk_int(0, (1 << 63) - 1)
        ty = self.types.get(tyid) if tyid is not None else None
        v = self.scalar(st, v, tyid)
        if v == BOT:
            return BOT
        if op == 'Not':
            if v[0] == 'I' and ty is not None:
                if ty['k'] == 'bool':
                    return self.reg(mk_int(1 - v[2], 1 - v[1], 0, mkterm('Not', v[4])))
                lo_t, hi_t = int_range(ty)
                if ty['k'] == 'uint':
                    return mk_int(hi_t - v[2], hi_t - v[1])
                return mk_int(-v[2] - 1, -v[1] - 1)
        if op == 'Neg':
            if v[0] == 'I':
                lo_t, hi_t = int_range(ty)
                return self.reg(mk_int(max(-v[2], lo_t), min(-v[1], hi_t), 0, mkterm('Sub', T('c', 0), v[4])))
            if v[0] == 'F':
                return self.reg(('F', -v[2], -v[1], v[3], mkterm('Neg', v[4])))
        return ('T', tyid, self.site(frame, bb, idx))

    def rvalue(self, st, frame, rv, bb, idx, dest_ty):
        k = rv['k']
        if k == 'use':
            return self.operand(st, frame, rv['op'])
        if k == 'bin':
            return self.binop(st, frame, rv['op'], rv['l'], rv['r'], bb, idx)
        if k == 'ref' or k == 'rawptr':
            lv = self.lvalue(st, frame, rv['pl'])
            if lv is None:
                return ('R', None, (), rv['mut'])
            return ('R', lv[0], lv[1], rv['mut'])
        if k == 'cast':
            return self.cast(st, frame, rv['ck'], rv['op'], rv['ty'], bb, idx)
        if k == 'un':
            return self.unop(st, frame, rv['op'], rv['x'], bb, idx)
        if k == 'discr':
            lv = self.lvalue(st, frame, rv['pl'])
            pty = self.place_ty(frame, rv['pl'])
            v = self.expand(self.read_lv(st, lv, pty))
            if v[0] == 'E':
                eid = v[1]
                if eid is None and lv is not None:
                    eid = T('e', self.site(frame, bb, idx))
                    v = ('E', eid, v[2])
                    self.write_lv(st, lv, v)
                v2 = st.resolve(v)
                if v2 == BOT:
                    return BOT
                ty = self.types.get(pty) if pty is not None else None
                ds = []
                for vi, _ in v2[2]:
                    d = vi
                    if ty and ty['k'] == 'adt' and vi < len(ty['variants']) and ty['variants'][vi]['discr'] is not None:
                        d = int(ty['variants'][vi]['discr'])
                        # signed discriminants are printed as u128
                        if d >= 1 << 127:
                            d -= 1 << 128
                    ds.append((d, vi))
                lo, hi = min(d for d, _ in ds), max(d for d, _ in ds)
                t = T('discr', eid, tuple(sorted(ds))) if eid is not None else None
                return mk_int(lo, hi, 0, t)
            if v[0] == 'A' or v[0] == 'S':
                return const_int(0)
            return ('T', dest_ty, self.site(frame, bb, idx))
        if k == 'agg':
            ak = rv['ak']
            ops = tuple(self.operand(st, frame, o) for o in rv['ops'])
            akk = ak['k']
            if akk in ('tuple', 'closure', 'coroutine', 'coroutine_closure'):
                return ('A', ops)
            if akk == 'array':
                el = BOT
                for o in ops:
                    el = join(el, o)
                if el == BOT:
                    el = ('T', ak['elem'], None)
                return ('S', const_int(len(ops)), el, ops if len(ops) <= 64 else None)
            if akk == 'adt':
                ty = self.types.get(ak['ty'])
                if ty['ak'] == 'enum':
                    return ('E', None, ((ak['variant'], ops),))
                if ty['ak'] == 'union':
                    return ('T', ak['ty'], None)
                return ('A', ops)
            return ('T', dest_ty, None)
        if k == 'repeat':
            v = self.operand(st, frame, rv['op'])
            n = rv['n']
            if n is None:
                return ('S', mk_int(0, (1 << 63) - 1), v, None)
            return ('S', const_int(n), v, tuple([v] * n) if n <= 64 else None)
        return ('T', dest_ty, self.site(frame, bb, idx))


def show_val(v):
    if v[0] == 'I':
        s = '[%d, %d]' % (v[1], v[2]) if v[1] != v[2] else str(v[1])
        if v[4] is not None and v[4][0] != 'c':
            s += ' ' + show_term(v[4])
        return s
    if v[0] == 'F':
        return 'f[%r, %r]%s' % (v[1], v[2], ' nan' if v[3] else '')
    if v[0] == 'E':
        return 'enum{%s}' % ','.join(str(i) for i, _ in v[2])
    if v[0] == 'S':
        return 'seq(len=%s)' % show_val(v[1])
    if v[0] == 'T':
        return 'T'
    return v[0]


def show_term(t, depth=0):
    if t is None:
        return '?'
    if depth > 4:
        return '..'
    op = t[0]
    if op == 'c':
        return str(t[1])
    if op == 'bits':
        return 'bits@%s+%s' % (t[2], t[3])
    if op == 'o':
        return 'v' + str(abs(hash(t)) % 10000)
    if op in ('len',):
        return 'len(' + str(abs(hash(t)) % 10000) + ')'
    return '%s(%s)' % (op, ', '.join(show_term(x, depth + 1) if isinstance(x, tuple) else str(x) for x in t[1:]))


PANICKY_ITEMS = {'unwrap', 'expect', 'unwrap_err', 'expect_err', 'index', 'index_mut', 'copy_from_slice',
                 'split_at', 'split_at_mut', 'remove', 'insert', 'swap_remove', 'split_off', 'drain',
                 'splice', 'swap', 'abs', 'pow', 'div_euclid', 'rem_euclid', 'unwrap_unchecked',
                 'add', 'sub', 'mul', 'div', 'rem', 'shl', 'shr', 'neg', 'add_assign', 'sub_assign',
                 'mul_assign', 'div_assign', 'rem_assign', 'shl_assign', 'shr_assign', 'from_str_radix',
                 'chunks', 'chunks_exact', 'windows', 'step_by', 'clone_from_slice', 'rotate_left',
                 'rotate_right', 'truncate_unchecked', 'set', 'block_on', 'duration_since', 'elapsed',
                 'panic', 'panic_fmt', 'unreachable', 'begin_panic', 'panic_display', 'expect_failed',
                 'unwrap_failed', 'assert_failed', 'panic_nounwind', 'panic_explicit', 'unreachable_display',
                 'lock', 'as_str_unchecked', 'from_secs_f64', 'from_secs_f32',
                 'split_first_chunk', 'first_chunk', 'get_unchecked', 'get_unchecked_mut', 'char_at',
                 'parse_unwrap', 'into_ok', 'into_err', 'exit', 'abort', 'process_abort'}

DIVERGING_PREFIXES = ('core::panicking::', 'std::rt::begin_panic', 'std::panicking::', 'core::option::expect_failed',
                      'core::result::unwrap_failed', 'core::option::unwrap_failed', 'core::slice::index::slice_',
                      'core::str::slice_error_fail', 'alloc::raw_vec::capacity_overflow', 'alloc::alloc::handle_alloc_error',
                      'std::process::exit', 'std::process::abort', 'core::intrinsics::abort')


class CallMixin:
    def write_dest(self, st, frame, t, val):
        pl = t['dest']
        if not pl['p']:
            st.cells[(frame.depth, pl['l'])] = val
        else:
            self.write_lv(st, self.lvalue(st, frame, pl), val)

    def dest_ty(self, frame, t):
        return self.place_ty(frame, t['dest'])

    def do_call(self, frame, b, t, sts, quiet):
        c = t['callee']
        self.n_calls += 1
        if c is None:
            # call through fn pointer / dyn
            if not quiet:
                self.record(frame, b, frame.info.ordinals.get(b, ('call:indirect', 0)), False,
                            'indirect call (fn pointer / dyn) not resolved', len(sts), sp=t.get('sp'))
            return self.external(frame, b, t, sts, None, quiet, trusted=True)
        if self.call_hook is not None:
            self.call_hook(self, frame, b, t, sts, c)
        m = self.models.find(c) if self.models is not None else None
        if m is not None:
            return m(self, frame, b, t, sts, c, quiet)
        rdid = c.get('rdid')
        body = self.prog.bodies.get(rdid) if rdid else None
        if body is not None and body['name'] in self.skip_bodies:
            return self.external(frame, b, t, sts, c, quiet, trusted=True)
        if body is not None:
            return self.inline(frame, b, t, sts, body, c, quiet)
        return self.external(frame, b, t, sts, c, quiet)

    def arg_vals(self, st, frame, t):
        return [self.operand(st, frame, a) for a in t['args']]

    def inline(self, frame, b, t, sts, body, c, quiet, args_override=None, discard=False):
        bid = body['id']
        if bid in self.stack_fns:
            if not quiet:
                self.record(frame, b, ('recursion:' + body['name'], 0), False, 'recursive call', len(sts), sp=t.get('sp'))
            return self.external(frame, b, t, sts, c, quiet, trusted=True)
        if frame.depth + 1 > self.max_depth:
            if not quiet:
                self.record(frame, b, ('depth:' + body['name'], 0), False, 'inline depth limit', len(sts), sp=t.get('sp'))
            return self.external(frame, b, t, sts, c, quiet, trusted=True)
        d = frame.depth + 1
        path = frame.path + ((frame.body['name'], b),)
        nf = Frame(d, body, path, self.pathid(path), self.info(body))
        self.fn_seen.add(bid)
        ins = []
        argc = body['argc']
        for st in sts:
            s2 = st.copy()
            vals = args_override(s2) if args_override is not None else self.arg_vals(s2, frame, t)
            if c is not None and body['kind'] in ('closure',) and c.get('trait') in ('std::ops::Fn', 'std::ops::FnMut', 'std::ops::FnOnce') and len(vals) == 2 and args_override is None:
                tup = self.expand(vals[1])
                rest = list(tup[1]) if tup[0] == 'A' else [('T', None, None)] * (argc - 1)
                vals = [vals[0]] + rest
            if body['kind'] == 'closure' and vals:
                envty = self.types.get(body['locals'][1])
                v0 = self.expand(vals[0]) if vals[0][0] == 'T' else vals[0]
                if envty['k'] == 'ref' and v0[0] != 'R':
                    s2.cells[(d, 'env')] = v0
                    vals[0] = ('R', (d, 'env'), (), True)
                elif envty['k'] != 'ref' and v0[0] == 'R':
                    vals[0] = self.read_lv(s2, (v0[1], v0[2]), body['locals'][1]) if v0[1] is not None else ('T', body['locals'][1], None)
            for i in range(argc):
                v = vals[i] if i < len(vals) else ('T', body['locals'][i + 1], None)
                s2.cells[(d, i + 1)] = v
            ins.append(s2)
        hook = self.hooks.get(bid) or self.hooks.get(body['name'])
        if hook is not None and hasattr(hook, 'entry'):
            hook.entry(self, nf, ins)
        self.stack_fns.append(bid)
        try:
            rets = self.run_body(nf, ins, quiet)
        finally:
            self.stack_fns.pop()
        if hook is not None and hasattr(hook, 'exit'):
            hook.exit(self, nf, rets)
        out = []
        if discard:
            self._last_closure_ret = BOT
            self._last_closure_rets = []
        for st, v in rets:
            for key in [k for k in st.cells if k[0] == d]:
                del st.cells[key]
            if st.tags:
                st.tags = frozenset(tg for tg in st.tags if not (tg[0] == 'P' and tg[1] == nf.pathid))
            if not discard:
                self.write_dest(st, frame, t, v)
            else:
                self._last_closure_ret = join(self._last_closure_ret, self.deep_resolve(st, v))
                self._last_closure_rets.append((st, v))
            out.append(st)
        return self.limit(out, site=(frame.pathid, b, 'ret'), depth=frame.depth)

    def closure_bodies_in(self, frame, t):
        """(arg index, closure body) for closure-typed arguments (by value or by reference)"""
        out = []
        for i, a in enumerate(t['args']):
            tyid = self.operand_ty(frame, a)
            if tyid is None:
                continue
            ty = self.types.get(tyid)
            while ty['k'] == 'ref':
                ty = self.types.get(ty['to'])
            if ty['k'] == 'closure':
                body = self.prog.bodies.get(ty['did'])
                if body is not None:
                    out.append((i, body))
        return out

    def run_closure_any(self, frame, b, t, st, idx, body, quiet, arg_vals=None):
        """analyse a closure passed to library code as if it were called 0..n times with unknown
        (or given) arguments; returns state after, and the join of its results"""
        env = self.operand(st, frame, t['args'][idx])
        fake_t = {'dest': {'l': 0, 'p': []}, 'args': [], 'sp': t.get('sp'), 't': 0, 'callee': None, 'k': 'call'}
        argc = body['argc']

        def mk(s2):
            vals = [env]
            for i in range(1, argc):
                if arg_vals is not None and i - 1 < len(arg_vals):
                    vals.append(arg_vals[i - 1])
                else:
                    vals.append(('T', body['locals'][i + 1], self.site(frame, b, ('cl', idx, i))))
            return vals
        res = BOT
        cur = st
        for it in range(3):
            outs = self.inline(frame, b, fake_t, [cur], body, None, quiet, args_override=mk, discard=True)
            # collect results: inline() discards; re-run to get values is wasteful, so capture via hook
            nxt = cur
            for o in outs:
                nxt = join_states(nxt, o) if nxt is not o else nxt
            res = join(res, self._last_closure_ret)
            if nxt.same(cur):
                break
            cur = nxt
        else:
            # not stable after 3 rounds: forget everything the closure may have written
            self.havoc_value_targets(cur, env, self.site(frame, b, ('clh', idx)))
        return cur, res

    def run_closure_once(self, frame, b, t, st, idx, body, quiet, arg_vals, env_val=None):
        """a closure that library code calls exactly once (Option::map / and_then on a Some value):
        returns the list of (state after, result) of its return paths, unmerged"""
        env = env_val if env_val is not None else self.operand(st, frame, t['args'][idx])
        fake_t = {'dest': {'l': 0, 'p': []}, 'args': [], 'sp': t.get('sp'), 't': 0, 'callee': None, 'k': 'call'}
        argc = body['argc']

        def mk(s2):
            vals = [env]
            for i in range(1, argc):
                if arg_vals is not None and i - 1 < len(arg_vals):
                    vals.append(arg_vals[i - 1])
                else:
                    vals.append(('T', body['locals'][i + 1], self.site(frame, b, ('cl', idx, i))))
            return vals
        self.inline(frame, b, fake_t, [st.copy()], body, None, quiet, args_override=mk, discard=True)
        return list(self._last_closure_rets)

    def havoc_value_targets(self, st, v, site, depth=0):
        """havoc everything reachable through mutable references inside v"""
        k = v[0]
        if k == 'R':
            if v[1] is not None and len(v) > 3 and v[3] and not (isinstance(v[1], tuple) and v[1][0] == 'k'):
                cur = self.read_lv(st, (v[1], v[2]), None)
                tyid = cur[1] if cur[0] == 'T' else None
                if depth < 3:
                    self.havoc_value_targets(st, self.expand(cur) if cur[0] == 'T' else cur, site, depth + 1)
                self.write_lv(st, (v[1], v[2]), self.havoc_like(cur, (site, v[1], v[2])))
        elif k == 'A':
            for x in v[1]:
                self.havoc_value_targets(st, x, site, depth)
        elif k == 'E':
            for _, fs in v[2]:
                for x in fs:
                    self.havoc_value_targets(st, x, site, depth)

    def havoc_like(self, v, origin):
        """unknown value of the same shape/type as v"""
        k = v[0]
        if k == 'I':
            return ('T', None, origin)
        if k == 'T':
            return ('T', v[1], origin)
        if k == 'S':
            return ('S', mk_int(0, (1 << 63) - 1, 0, T('len', origin)), self.havoc_like(v[2], (origin, '[]')), None)
        if k == 'A':
            return ('A', tuple(self.havoc_like(x, (origin, i)) for i, x in enumerate(v[1])))
        return ('T', None, origin)

    def external(self, frame, b, t, sts, c, quiet, trusted=False):
        name = (c.get('rname') or c.get('name')) if c else 'indirect'
        did = (c.get('rdid') or c.get('did')) if c else 'indirect'
        crate = c.get('rcrate') if c else None
        item = c.get('item') if c else None
        self.ext_calls[did] = self.ext_calls.get(did, 0) + 1
        self.ext_names[did] = name
        diverges = t['t'] is None
        if c is not None and not quiet and not trusted:
            ok = True
            detail = None
            if any(did.startswith(p) for p in DIVERGING_PREFIXES) or (diverges and crate in ('core', 'std', 'alloc')):
                ok = False
                detail = 'reachable call to diverging/panicking function ' + name
            elif crate not in TRUSTED_CRATES and crate not in WORKSPACE:
                ok = False
                detail = 'call into untrusted crate ' + str(crate)
            elif crate in WORKSPACE:
                ok = False
                detail = 'workspace function without MIR (generic / unresolved): ' + name
            elif item in PANICKY_ITEMS:
                ok = False
                detail = 'library call with a panic precondition and no model: ' + name
            self.record(frame, b, frame.info.ordinals.get(b, ('call:' + did, 0)), ok, detail, len(sts),
                        nontrivial=not ok, sp=t.get('sp'))
        if diverges:
            return []
        out = []
        dty = self.dest_ty(frame, t)
        cls = self.closure_bodies_in(frame, t) if c is not None else []
        for st in sts:
            s2 = st
            site = self.site(frame, b, 'x')
            for i, a in enumerate(t['args']):
                v = self.operand(s2, frame, a)
                aty = self.operand_ty(frame, a)
                is_cl = any(i == ci for ci, _ in cls)
                if not is_cl:
                    self.havoc_value_targets(s2, v, (site, i))
            for ci, body in cls:
                s2, _ = self.run_closure_any(frame, b, t, s2, ci, body, quiet)
            self.write_dest(s2, frame, t, ('T', dty, site))
            out.append(s2)
        return out


def lin(t):
    """term -> (base term or None, offset) for base + constant"""
    off = 0
    while t is not None and t[0] in ('Add', 'Sub') and len(t) == 3:
        x, y = t[1], t[2]
        if y[0] == 'c' and isinstance(y[1], int):
            off += y[1] if t[0] == 'Add' else -y[1]
            t = x
        elif x[0] == 'c' and isinstance(x[1], int) and t[0] == 'Add':
            off += x[1]
            t = y
        else:
            break
    if t is not None and t[0] == 'c' and isinstance(t[1], int):
        return None, off + t[1]
    return t, off


class ZoneMixin:
    def entails_diff(self, st, ta, tb, k):
        """do the facts and intervals of st imply  ta - tb <= k ?  (difference-bound closure)"""
        ba, oa = lin(ta)
        bb, ob = lin(tb)
        # want: ba + oa - (bb + ob) <= k   <=>   ba - bb <= k - oa + ob
        bound = k - oa + ob
        edges = {}   # (u, v) -> w  meaning u - v <= w

        def add(u, v, w):
            if u == v:
                return
            old = edges.get((u, v))
            if old is None or w < old:
                edges[(u, v)] = w
        nodes = {ba, bb}
        for f in st.facts:
            if f[0] not in CMPS or len(f) != 3:
                continue
            x, y = f[1], f[2]
            if not isinstance(x, tuple) or not isinstance(y, tuple):
                continue
            bx, ox = lin(x)
            by, oy = lin(y)
            op = f[0]
            # x op y with x = bx+ox, y = by+oy
            if op in ('Lt', 'Le', 'Eq'):
                add(bx, by, oy - ox - (1 if op == 'Lt' else 0))
            if op in ('Gt', 'Ge', 'Eq'):
                add(by, bx, ox - oy - (1 if op == 'Gt' else 0))
            nodes.add(bx)
            nodes.add(by)
        for n in list(nodes):
            if n is None:
                continue
            iv = self.ival(st, n)
            if iv is not None and not isinstance(iv[2], bool):
                add(n, None, iv[1])      # n - 0 <= hi
                add(None, n, -iv[0])     # 0 - n <= -lo
        nodes.add(None)
        # shortest path from bb to ba in graph where edge (u,v,w): u <= v + w
        dist = {bb: 0}
        for _ in range(len(nodes) + 1):
            ch = False
            for (u, v), w in edges.items():
                dv = dist.get(v)
                if dv is not None and (u not in dist or dv + w < dist[u]):
                    dist[u] = dv + w
                    ch = True
            if not ch:
                break
        d = dist.get(ba)
        if ba == bb:
            d = 0 if d is None else min(d, 0)
        return d is not None and d <= bound

    def entails_lt(self, st, ta, tb):
        return self.entails_diff(st, ta, tb, -1)

    def entails_le(self, st, ta, tb):
        return self.entails_diff(st, ta, tb, 0)


class Engine(Interp, InterpOps, CallMixin, ZoneMixin):
    def __init__(self, prog, **kw):
        Interp.__init__(self, prog, **kw)
        self.tbase = {}
        self._acc = []
        self._impl_cache = {}
        self.layout = []
        self.stmt_hook = None
        self.call_hook = None
        self.loops_seen = set()
        self.kcells = {}
        self.gc_roots = set()
        self.loop_info = {}
        self.unroll = 40
        self.layout_hook = None
        self.table_ids = {}         # constant integer tables met under a symbolic index -> id
        self.tables = {}
        self.bits_override = None   # (bit position, width) -> forced value of a primitive deku read, or None
        self.keep_rf = None         # predicate: refinements of these terms survive state GC
        self.const_checks = []
        self._last_closure_ret = BOT

    def layout_event(self, frame, b, t, c, sid, pos, n, what):
        if self.layout_hook is not None:
            self.layout_hook(self, frame, b, t, c, sid, pos, n, what)

    # ---- state list management
    def dedupe(self, sts):
        if len(sts) <= 1:
            return sts
        out = []
        buckets = {}
        for s in sts:
            try:
                h = hash((frozenset(s.cells.items()), s.tags, frozenset(s.rf.items()) if len(s.rf) < 64 else len(s.rf)))
            except TypeError:
                h = len(s.cells)
            bl = buckets.setdefault(h, [])
            for o in bl:
                if o is s or o.same(s):
                    break
            else:
                bl.append(s)
                out.append(s)
        return out

    def shape_sig(self, s):
        """cheap signature: path tags + which variants every enum-valued cell may hold"""
        erf = s.erf
        sig = []
        for k, v in s.cells.items():
            if v[0] == 'E':
                al = erf.get(v[1]) if v[1] is not None else None
                if al is None:
                    sig.append((k, tuple(i for i, _ in v[2])))
                else:
                    sig.append((k, tuple(i for i, _ in v[2] if i in al)))
        return (s.tags, frozenset(sig))

    def limit(self, sts, K=None, site=None, depth=None):
        """at most K disjuncts per trace partition (states of different partitions are never merged)"""
        sts = self.dedupe(sts)
        K = K or self.K
        if len(sts) <= K:
            return sts
        groups = {}
        if depth is not None and depth > 0 and self.per_caller_budget:
            # the budget of K disjuncts is per trace partition and per state of the calling frames:
            # a callee may distinguish K cases for every case its callers distinguish
            for s in sts:
                try:
                    outer = frozenset((k, v) for k, v in s.cells.items() if k[0].__class__ is int and k[0] < depth)
                except TypeError:
                    outer = None
                groups.setdefault((s.tags, outer), []).append(s)
            if len(groups) > self.max_groups:
                groups = {}
        if not groups:
            for s in sts:
                groups.setdefault(s.tags, []).append(s)
        if len(groups) == 1:
            return self.agglomerate(sts, K, site, depth)
        out = []
        for tg in sorted(groups, key=lambda x: repr(x)[:200]):
            out.extend(self.agglomerate(groups[tg], K, site, depth))
        return out

    def agglomerate(self, sts, K, site, depth=None):
        """greedy merge of the two closest states until at most K remain.  Distance is
        lexicographic: (differences outside the current frame incl. refinements, differences in
        the current frame) - states that only differ in locals of the innermost frame go first."""
        import heapq
        if len(sts) <= K:
            return sts
        if len(sts) > 6 * K + 8:
            # far too many for pairwise comparison: fold states of equal shape first
            groups = {}
            for s in sts:
                sig = self.shape_sig(s)
                if depth is not None:
                    try:
                        outer = frozenset((k, v) for k, v in s.cells.items()
                                          if not (k[0].__class__ is int and k[0] >= depth))
                    except TypeError:
                        outer = None
                    sig = (sig, outer)
                groups.setdefault(sig, []).append(s)
            sts = []
            for g in groups.values():
                while len(g) > 2:
                    nxt_ = []
                    for i in range(0, len(g) - 1, 2):
                        nxt_.append(join_states(g[i], g[i + 1], site))
                    if len(g) % 2:
                        nxt_.append(g[-1])
                    g = nxt_
                sts.extend(g)
            while len(sts) > 6 * K + 8:
                nxt_ = []
                for i in range(0, len(sts) - 1, 2):
                    nxt_.append(join_states(sts[i], sts[i + 1], site))
                if len(sts) % 2:
                    nxt_.append(sts[-1])
                sts = nxt_
            sts = self.dedupe(sts)
            if len(sts) <= K:
                return sts

        def items_of(s):
            try:
                fs = set(s.cells.items())
            except TypeError:
                fs = set((k, repr(v)) for k, v in s.cells.items())
            for t, r in s.rf.items():
                fs.add(('rf', t, r))
            for e, vs in s.erf.items():
                fs.add(('erf', e, vs))
            for tg in s.tags:
                fs.add(('tag', tg))
            return frozenset(fs)

        nd = (depth if depth is not None else 0) + 2

        def dist(a, b):
            # lexicographic by frame depth: distinctions held by older frames live longest and are
            # the last to be given up; refinements / tags count with the innermost frame
            df = a ^ b
            vec = [0] * nd
            for it in df:
                k = it[0]
                if k.__class__ is tuple:
                    d = k[0]
                    if d.__class__ is int:
                        vec[d if d < nd - 1 else nd - 2] += 1
                    else:
                        vec[0] += 1
                else:
                    vec[nd - 1] += 1
            return tuple(vec)
        live = {i: s for i, s in enumerate(sts)}
        isets = {i: items_of(s) for i, s in live.items()}
        shapes = {i: self.shape_sig(s) for i, s in live.items()}
        dist0 = dist

        def dist(a, b, i=None, j=None):
            # states whose enum-valued cells hold different variants (Ok vs Err, Some vs None)
            # are merged only when nothing else is left
            d = dist0(a, b)
            if i is not None and shapes[i] != shapes[j]:
                return (1,) + d
            return (0,) + d
        heap = []
        ids = sorted(live)
        for x in range(len(ids)):
            ix = isets[ids[x]]
            for y in range(x + 1, len(ids)):
                heap.append((dist(ix, isets[ids[y]], ids[x], ids[y]), ids[x], ids[y]))
        heapq.heapify(heap)
        nxt = len(sts)
        while len(live) > K and heap:
            d, i, j = heapq.heappop(heap)
            if i not in live or j not in live:
                continue
            m = join_states(live[i], live[j], site)
            del live[i], live[j], isets[i], isets[j]
            dup = False
            for s in live.values():
                if s.same(m):
                    dup = True
                    break
            if dup:
                continue
            im = items_of(m)
            shapes[nxt] = self.shape_sig(m)
            for o, io in isets.items():
                heapq.heappush(heap, (dist(io, im, o, nxt), o, nxt))
            live[nxt] = m
            isets[nxt] = im
            nxt += 1
        return [live[i] for i in sorted(live)]

    def prune(self, st, frame, b):
        """state GC at a join: a local of the current frame survives if it is live (direct future
        use) or reachable through references from something that survives"""
        info = frame.info
        live = info.live_in[b]
        d = frame.depth
        cells = st.cells
        roots = self.gc_roots
        cand = [k for k in cells if ((k[0] == d and k[1] not in live) or k[0] == 'o') and k not in roots]
        if not cand:
            return
        candset = set(cand)
        reached = set()
        stack = []

        def walk(v):
            k = v[0]
            if k == 'R':
                c = v[1]
                if c is not None and c in candset and c not in reached:
                    reached.add(c)
                    stack.append(c)
            elif k == 'A':
                for x in v[1]:
                    if x[0] not in ('I', 'F'):
                        walk(x)
            elif k == 'E':
                for _, fs in v[2]:
                    for x in fs:
                        if x[0] not in ('I', 'F'):
                            walk(x)
            elif k == 'S':
                if v[2][0] not in ('I', 'F'):
                    walk(v[2])
                if v[3] is not None:
                    for x in v[3]:
                        if x[0] not in ('I', 'F'):
                            walk(x)
            elif k == 'O':
                for x in v[2]:
                    if isinstance(x, tuple) and x and x[0] in ('R', 'A', 'E', 'S', 'O', 'T'):
                        walk(x)
            elif k == 'T':
                if v[2] is not None:
                    torig.add(v[2])     # a lazily expanded value: may hold references with derived origins
        torig = set()
        for k, v in cells.items():
            if k not in candset and v[0] not in ('I', 'F'):
                walk(v)

        def drain():
            while stack:
                c = stack.pop()
                v = cells.get(c)
                if v is not None and v[0] not in ('I', 'F'):
                    walk(v)
        drain()
        ocand = [k for k in cand if k[0] == 'o']
        changed = bool(ocand) and bool(torig)
        while changed:
            changed = False
            for c in ocand:
                if c in reached:
                    continue
                x = c[1]
                hit = False
                while True:
                    if x in torig:
                        hit = True
                        break
                    if x.__class__ is tuple and len(x) == 2:
                        x = x[0]
                    else:
                        break
                if hit:
                    reached.add(c)
                    stack.append(c)
                    drain()
                    changed = True
        for k in cand:
            if k not in reached:
                del cells[k]

    def gc_refinements(self, st):
        """drop refinements and facts about terms no longer mentioned by any cell"""
        if not st.rf and not st.erf and not st.facts:
            return
        used = set()
        eused = set()

        def walk(v):
            k = v[0]
            if k == 'I' or k == 'F':
                if v[4] is not None:
                    collect(v[4])
            elif k == 'A':
                for x in v[1]:
                    walk(x)
            elif k == 'E':
                if v[1] is not None:
                    eused.add(v[1])
                for _, fs in v[2]:
                    for x in fs:
                        walk(x)
            elif k == 'S':
                walk(v[1])
                walk(v[2])
                if v[3] is not None:
                    for x in v[3]:
                        walk(x)
            elif k == 'O':
                for x in v[2]:
                    if isinstance(x, tuple) and x and x[0] in ('I', 'F', 'A', 'E', 'S', 'O', 'T'):
                        walk(x)
            elif k == 'T':
                if v[2] is not None:
                    torig.add(v[2])
        torig = set()

        def collect(t):
            if t in used:
                return
            used.add(t)
            if t[0] == 'discr':
                eused.add(t[1])
            for x in t[1:]:
                if isinstance(x, tuple) and x and isinstance(x[0], str):
                    collect(x)
        for v in st.cells.values():
            walk(v)

        def alive(t):
            """every atom of t is still held by some cell"""
            if t in used:
                return True
            op = t[0]
            if op == 'c':
                return True
            if op == 'bits':
                return True      # positional: a re-read of the same bits yields the same term
            if op in ('o', 'len'):
                # values reachable from an entry parameter are re-materialised with the same term
                o = t[1]
                while True:
                    if o in torig:
                        return True      # derived from a lazily expanded value that is still held
                    if o.__class__ is tuple and len(o) == 2:
                        if o[0] == 'p' and o[1].__class__ is str:
                            return True
                        o = o[0]
                    else:
                        return False
            if op in ('j', 'jd', 'dvhint', 'e', 'discr', 'p'):
                return False
            ok = True
            for x in t[1:]:
                if isinstance(x, tuple) and x and isinstance(x[0], str):
                    if not alive(x):
                        ok = False
                        break
            return ok
        keep_rf = self.keep_rf
        for t in list(st.rf):
            if t not in used and not alive(t) and not (keep_rf is not None and keep_rf(t)):
                del st.rf[t]
        for e in list(st.erf):
            if e not in eused and not (e[0] == 'e' and alive(('o', e[1]))):
                del st.erf[e]
        if st.facts:
            keep = self.keep_fact
            nf = frozenset(f for f in st.facts
                           if (keep is not None and keep(f)) or all(not isinstance(x, tuple) or alive(x) for x in f[1:]))
            if len(nf) != len(st.facts):
                st.facts = nf

    # ---- running a body
    def run_body(self, frame, in_states, quiet=False):
        """Structural execution: the body is a DAG of blocks in which every natural loop is a single
        node.  Loops are first unrolled (up to self.unroll iterations, every iteration being run
        with its own states) and, if they have not finished by then, solved by join + widening."""
        info = frame.info
        rets = []
        all_blocks = set(info.rpo)
        exits = self.run_region(frame, None, all_blocks, 0, list(in_states), quiet, rets)
        return rets

    def run_region(self, frame, head, blocks, entry, in_states, quiet, rets, back=None):
        """execute the acyclic region `blocks` (inner loops collapsed) starting at `entry`;
        returns {outside block: [states]}; states taking the back edge to `head` go to `back`"""
        import heapq
        info = frame.info
        rpo = info.rpo
        pending = {entry: list(in_states)}
        hq = [(rpo[entry], entry)]
        exits = {}

        def route(dst, sts):
            if not sts:
                return
            if head is not None and dst == head:
                back.extend(sts)
            elif dst in blocks:
                if dst not in pending:
                    pending[dst] = []
                    heapq.heappush(hq, (rpo[dst], dst))
                pending[dst].extend(sts)
            else:
                exits.setdefault(dst, []).extend(sts)
        while hq:
            _, b = heapq.heappop(hq)
            ins = pending.pop(b, None)
            if not ins:
                continue
            if len(info.pred[b]) > 1 and b != entry:
                cp = []
                for s in ins:
                    s = s.copy()
                    self.prune(s, frame, b)
                    self.gc_refinements(s)
                    cp.append(s)
                ins = self.limit(cp, site=(frame.pathid, b), depth=frame.depth)
            if b in info.loop_heads and b != head:
                for dst, sts in self.run_loop(frame, b, ins, quiet, rets).items():
                    route(dst, sts)
                continue
            self.n_blocks += 1
            if self.budget is not None and self.n_blocks > self.budget:
                raise AnalysisError('block budget exceeded')
            outs, ret = self.exec_block(frame, b, ins, quiet)
            if ret is not None:
                rets.extend(ret)
            for dst, sts in outs.items():
                route(dst, sts)
        return exits

    def run_loop(self, frame, h, in_states, quiet, rets):
        groups = {}
        for s in in_states:
            groups.setdefault(s.tags, []).append(s)
        if len(groups) <= 1:
            return self.run_loop1(frame, h, in_states, quiet, rets)
        exits = {}
        for tg in sorted(groups, key=lambda x: sorted(map(repr, x))):
            for dst, sts in self.run_loop1(frame, h, groups[tg], quiet, rets).items():
                exits.setdefault(dst, []).extend(sts)
        return exits

    def run_loop1(self, frame, h, in_states, quiet, rets):
        info = frame.info
        blocks = info.loop_blocks[h]
        exits = {}
        key = (frame.body['name'], h)

        def add_exits(ex):
            for dst, sts in ex.items():
                exits.setdefault(dst, []).extend(sts)

        def prep(sts):
            out = []
            for s in sts:
                s = s.copy()
                self.prune(s, frame, h)
                s = self.strip_loop(s, frame, h)
                self.gc_refinements(s)
                out.append(s)
            return self.limit(out, site=(frame.pathid, h), depth=frame.depth)
        cur = prep(in_states)
        seen = list(cur)
        it = 0
        while it < self.unroll:
            back = []
            add_exits(self.run_region(frame, h, blocks, h, cur, quiet, rets, back))
            it += 1
            if not back:
                self.loop_info.setdefault(key, set()).add(('exact', it))
                for dst in exits:
                    exits[dst] = self.dedupe(exits[dst])
                return exits
            cur = prep(back)
            # an iteration that reproduces a state already run adds nothing
            cur = [s for s in cur if not any(s.same(o) for o in seen)]
            if not cur:
                self.loop_info.setdefault(key, set()).add(('fixpoint', it))
                return exits
            seen.extend(cur)
        # not finished: one joined head state, widening
        self.loop_info.setdefault(key, set()).add(('widened', it))
        head_st = seen[0]
        for s in seen[1:]:
            head_st = join_states(head_st, s, (frame.pathid, h))
        n = 0
        last_ex = {}
        while True:
            back = []
            last_ex = self.run_region(frame, h, blocks, h, [head_st], quiet, rets, back)
            if not back:
                break
            nb = prep(back)
            new = head_st
            for s in nb:
                new = join_states(new, s, (frame.pathid, h))
            if n >= 2:
                new = self.widen_states(head_st, new, info.thresholds if n < 5 else ())
            if new.same(head_st):
                break
            head_st = new
            n += 1
            if n > 40:
                raise AnalysisError('loop does not stabilise in %s bb%d' % (frame.body['name'], h))
        add_exits(last_ex)
        for dst in exits:
            exits[dst] = self.dedupe(exits[dst])
        return exits

    def strip_loop(self, st, frame, head):
        blk = frame.info.loop_blocks.get(head, ())
        pid = frame.pathid
        plen = len(frame.path)
        path_list = self.path_list
        fpath = frame.path

        def inside(site):
            p, b = site
            if p == pid:
                return b in blk
            pp = path_list[p]
            if len(pp) > plen and pp[:plen] == fpath:
                return pp[plen][1] in blk
            return False

        def pred(t):
            for s in term_sites(t):
                if inside(s):
                    return True
            return False
        touched = False
        for k, v in list(st.cells.items()):
            nv = strip_terms(v, pred)
            if nv != v:
                # bake the refinement into the value before the term is dropped
                st.cells[k] = strip_terms(self.deep_resolve(st, v), pred)
                touched = True
        for t in list(st.rf):
            if pred(t):
                del st.rf[t]
        for e in list(st.erf):
            if pred(e):
                del st.erf[e]
        st.facts = frozenset(f for f in st.facts if not any(isinstance(x, tuple) and pred(x) for x in f[1:]))
        return st

    def deep_resolve(self, st, v):
        k = v[0]
        if k in ('I', 'F'):
            return st.resolve(v)
        if k == 'A':
            return ('A', tuple(self.deep_resolve(st, x) for x in v[1]))
        if k == 'E':
            r = st.resolve(v)
            return r
        if k == 'S':
            return ('S', st.resolve(v[1]), self.deep_resolve(st, v[2]),
                    None if v[3] is None else tuple(self.deep_resolve(st, x) for x in v[3]))
        return v

    def widen_states(self, old, new, thresholds):
        s = State()
        for k, vn in new.cells.items():
            vo = old.cells.get(k)
            if vo is None:
                s.cells[k] = vn
            else:
                s.cells[k] = widen(vo, vn, thresholds)
        for t, r in new.rf.items():
            ro = old.rf.get(t)
            if ro is not None and ro == r:
                s.rf[t] = r
        for e, vs in new.erf.items():
            if old.erf.get(e) == vs:
                s.erf[e] = vs
        s.facts = new.facts & old.facts
        s.tags = new.tags & old.tags
        return s

    # ---- blocks
    def exec_block(self, frame, b, ins, quiet):
        bb = frame.body['blocks'][b]
        sts = []
        for s in ins:
            st = s.copy()
            ok = True
            for idx, stmt in enumerate(bb['s']):
                k = stmt['k']
                if k == 'assign':
                    pl = stmt['pl']
                    dty = frame.body['locals'][pl['l']] if not pl['p'] else self.place_ty(frame, pl)
                    v = self.rvalue(st, frame, stmt['rv'], b, idx, dty)
                    if v == BOT:
                        ok = False
                        break
                    if not pl['p']:
                        st.cells[(frame.depth, pl['l'])] = v
                        if frame.info.part_locals and pl['l'] in frame.info.part_locals and v[0] in ('I', 'F') and v[1] == v[2]:
                            nm = frame.info.part_locals[pl['l']]
                            st.tags = frozenset(tg for tg in st.tags if not (tg[0] == 'P' and tg[1] == frame.pathid and tg[2] == nm)) \
                                | {('P', frame.pathid, nm, v[1])}
                    else:
                        lv = self.lvalue(st, frame, pl)
                        weak = lv is not None and any(isinstance(e, tuple) and e[0] == 'i*' for e in lv[1])
                        if v[0] == 'S' and stmt['rv']['k'] == 'agg' and 'alloc/src/macros.rs' in str(stmt.get('sp')):
                            st.cells[('vecinit', frame.depth)] = v      # vec![..]: consumed by box_assume_init_into_vec_unsafe
                        self.write_lv(st, lv, v, weak)
                    if self.stmt_hook is not None:
                        self.stmt_hook(self, st, frame, b, idx, stmt, v)
                elif k == 'dead':
                    st.cells.pop((frame.depth, stmt['l']), None)
                elif k == 'setdiscr':
                    lv = self.lvalue(st, frame, stmt['pl'])
                    cur = self.expand(self.read_lv(st, lv, self.place_ty(frame, stmt['pl'])))
                    if cur[0] == 'E':
                        d = dict(cur[2])
                        fs = d.get(stmt['variant'], ())
                        self.write_lv(st, lv, ('E', None, ((stmt['variant'], fs),)))
            if ok:
                sts.append(st)
        t = bb['t']
        outs = {}
        if not t or not sts:
            return outs, None
        k = t['k']
        if k == 'goto':
            outs[t['t']] = sts
            return outs, None
        if k == 'return':
            ret = []
            for st in sts:
                v = st.cells.get((frame.depth, 0), ('T', frame.body['locals'][0], None))
                ret.append((st, v))
            return outs, ret
        if k == 'switch':
            self.do_switch(frame, b, t, sts, outs)
            return outs, None
        if k == 'assert':
            self.do_assert(frame, b, t, sts, outs, quiet)
            return outs, None
        if k == 'drop':
            outs[t['t']] = sts
            return outs, None
        if k == 'call':
            res = self.do_call(frame, b, t, sts, quiet)
            if t['t'] is not None and res:
                outs[t['t']] = res
            return outs, None
        if k == 'yield':
            for st in sts:
                self.havoc_nonlocal(st, frame, self.site(frame, b, 'y'))
                lv = self.lvalue(st, frame, t['resume_arg'])
                self.write_lv(st, lv, ('T', self.place_ty(frame, t['resume_arg']), None))
            outs[t['t']] = sts
            return outs, None
        if k in ('unreachable', 'unwind', 'coroutine_drop'):
            return outs, None
        if k == 'tailcall' or k == 'asm':
            if not quiet:
                self.record(frame, b, ('unsupported:' + k, 0), False, 'unsupported terminator', len(sts), sp=t.get('sp'))
            return outs, None
        return outs, None

    def havoc_nonlocal(self, st, frame, site):
        for key in list(st.cells):
            if key[0] != frame.depth and not (isinstance(key[0], str) and key[0] == 'k'):
                v = st.cells[key]
                st.cells[key] = ('T', None, (site, key))

    def do_switch(self, frame, b, t, sts, outs):
        op = t['op']
        tyid = self.operand_ty(frame, op)
        for st in sts:
            v = self.scalar(st, self.operand(st, frame, op), tyid)
            if v == BOT:
                continue
            if v[0] != 'I':
                for val, dst in t['vals']:
                    outs.setdefault(dst, []).append(st.copy())
                outs.setdefault(t['otherwise'], []).append(st)
                continue
            ty = self.types.get(tyid) if tyid is not None else None
            signed = ty is not None and ty['k'] == 'int'
            bits = ty['bits'] if ty is not None and 'bits' in ty else 64
            term = v[4]
            vals = []
            for val, dst in t['vals']:
                if signed and val >= 1 << (bits - 1):
                    val -= 1 << bits
                vals.append((val, dst))
            listed = set()
            for val, dst in vals:
                listed.add(val)
                if val < v[1] or val > v[2]:
                    continue
                s2 = st.copy()
                if self.narrow_to(s2, term, val, True):
                    outs.setdefault(dst, []).append(s2)
            # otherwise
            lo, hi = v[1], v[2]
            while lo in listed and lo <= hi:
                lo += 1
            while hi in listed and hi >= lo:
                hi -= 1
            if lo <= hi:
                s2 = st
                feasible = True
                if term is not None:
                    if term[0] == 'discr':
                        feasible = self.narrow_discr(s2, term, listed, False)
                    elif len(vals) == 1 and ty is not None and ty['k'] == 'bool':
                        feasible = self.assume(s2, term, vals[0][0] == 0)
                    else:
                        feasible = self.refine_term(s2, term, lo, hi)
                        if feasible and len(listed) <= 8:
                            for c in listed:
                                if lo < c < hi:
                                    s2.facts = s2.facts | {('Ne', term, T('c', c))}
                if feasible:
                    outs.setdefault(t['otherwise'], []).append(s2)

    def narrow_to(self, st, term, val, eq):
        if term is None:
            return True
        if term[0] == 'discr':
            return self.narrow_discr(st, term, {val}, True)
        if term[0] in CMPS or term[0] in ('And', 'Or', 'Not', 'inrange', 'isfin'):
            return self.assume(st, term, val != 0)
        for f in st.facts:
            if f[0] == 'Ne' and f[1] is term and f[2] == ('c', val):
                return False
        return self.refine_term(st, term, val, val)

    def narrow_discr(self, st, term, vals, keep):
        eid, mapping = term[1], term[2]
        allowed = set()
        for d, vi in mapping:
            if (d in vals) == keep:
                allowed.add(vi)
        cur = st.erf.get(eid)
        if cur is not None:
            allowed &= cur
        if not allowed:
            return False
        st.erf[eid] = frozenset(allowed)
        return True

    def do_assert(self, frame, b, t, sts, outs, quiet):
        if t['msg'].startswith(('MisalignedPointerDereference', 'NullPointerDereference')):
            # debug-build UB checks on raw-pointer dereferences: the workspace has no unsafe code, they
            # only guard std macro expansions (vec!) over freshly allocated boxes
            if not quiet and sts:
                self.record(frame, b, frame.info.ordinals[b], True, None, len(sts), False, sp=t.get('sp'))
            outs[t['t']] = sts
            return
        ok_all = True
        detail = None
        nontrivial = False
        cont = []
        for st in sts:
            c = self.scalar(st, self.operand(st, frame, t['cond']), self.types.by_name('bool'))
            if c == BOT:
                continue
            exp = 1 if t['expected'] else 0
            if c[0] != 'I':
                ok_all = False
                detail = detail or 'condition unknown'
                cont.append(st)
                continue
            if c[1] == c[2]:
                if c[1] == exp:
                    cont.append(st)
                else:
                    ok_all = False
                    detail = detail or self.describe_ops(st, frame, t)
                continue
            if t['msg'] == 'BoundsCheck' and len(t['ops']) == 2:
                ln = self.scalar(st, self.operand(st, frame, t['ops'][0]), None)
                ix = self.scalar(st, self.operand(st, frame, t['ops'][1]), None)
                if ln[0] == 'I' and ix[0] == 'I' and ln[4] is not None and ix[4] is not None and ix[1] >= 0 \
                        and self.entails_lt(st, ix[4], ln[4]):
                    self.assume(st, c[4], bool(exp))
                    cont.append(st)
                    continue
            ok_all = False
            detail = detail or self.describe_ops(st, frame, t)
            if self.assume(st, c[4], bool(exp)):
                cont.append(st)
        if not quiet and sts:
            for o in t['ops']:
                if o['k'] != 'const':
                    nontrivial = True
            self.record(frame, b, frame.info.ordinals[b], ok_all, detail, len(sts), nontrivial, sp=t.get('sp'))
        if cont:
            outs[t['t']] = cont

    def describe_ops(self, st, frame, t):
        parts = []
        for o in t['ops']:
            v = self.operand(st, frame, o)
            v = self.scalar(st, v, self.operand_ty(frame, o))
            parts.append(self.show(frame, o) + '=' + show_val(v))
        return '%s [%s]' % (t['msg'], ', '.join(parts))

    def show(self, frame, o):
        if o['k'] == 'const':
            v = o['v']
            return str(v.get('int', '?'))
        pl = o['pl']
        nm = frame.info.dbgname.get(pl['l'], '_%d' % pl['l'])
        return nm + ''.join('.' + str(e[1]) if e[0] == 'field' else ('*' if e[0] == 'deref' else '[]') for e in pl['p'])




