"""Helpers to run the abstract interpreter from an entry point with abstract arguments."""
import sys
import time

import absint as A
from absint import State, Frame, BOT, mk_int, const_int, T
import models


# trace-partitioning directives: states that differ in the (constant) value of these locals are
# never merged while the function is on the stack
PARTITIONS = {
    "<decode::Message as deku::DekuReader<'_>>::from_reader_with_ctx": {'bit_len'},
}


def make_engine(prog, **kw):
    E = A.Engine(prog, models=models.M, **kw)
    E.partitions = dict(PARTITIONS)
    return E


def find_body(prog, name=None, trait=None, self_ty=None, item=None, crate=None, kind='fn'):
    out = []
    for b in prog.bodies.values():
        if b['kind'] != kind:
            continue
        if crate is not None and b['crate'] != crate:
            continue
        if name is not None and b['name'] != name:
            continue
        if item is not None and b['item'] != item:
            continue
        im = b.get('impl')
        if trait is not None and (not im or im.get('trait') != trait):
            continue
        if self_ty is not None and (not im or im.get('self') != self_ty):
            continue
        out.append(b)
    return out


def arg_top(E, st, body, i, name=None):
    """unknown argument i (1-based local) with a symbolic origin; references get their own cell"""
    tyid = body['locals'][i]
    origin = ('p', name or ('arg%d' % i))
    return E.expand(('T', tyid, origin))


def run_entry(E, body, args=None, pre=None, quiet=False):
    """args: list of values or None (unknown); pre(E, st, frame) may refine the entry state.
    returns list of (state, retval)"""
    st = State()
    path = ((('entry', body['name']), 0),)
    fr = Frame(0, body, path, E.pathid(path), E.info(body))
    for i in range(body['argc']):
        v = args[i] if args and i < len(args) and args[i] is not None else arg_top(E, st, body, i + 1)
        st.cells[(0, i + 1)] = v
    if pre is not None:
        pre(E, st, fr)
    E.stack_fns.append(body['id'])
    E.fn_seen.add(body['id'])
    try:
        rets = E.run_body(fr, [st], quiet)
    finally:
        E.stack_fns.pop()
    return rets


def report(E, out=sys.stdout, only_open=True):
    obl = E.obligations()
    n = len(obl)
    nopen = sum(1 for o in obl.values() if not o['ok'])
    print('obligations: %d, open: %d, functions: %d, blocks: %d, calls: %d' % (n, nopen, len(E.fn_seen), E.n_blocks, E.n_calls), file=out)
    for k in sorted(obl):
        o = obl[k]
        if o['ok'] and only_open:
            continue
        print(' %s %s  @%s' % ('ok  ' if o['ok'] else 'OPEN', k, o['site']), file=out)
        for ob in o['open'][:2]:
            print('      %s' % ob.detail, file=out)
            print('      via %s' % ' > '.join('%s' % (p[0] if isinstance(p[0], str) else p[0][1]) for p in ob.path[-4:]), file=out)
    return obl


if __name__ == '__main__':
    import facts
    prog = facts.load_program()
    name = sys.argv[1]
    bs = [b for b in prog.bodies.values() if name in b['id'] and b['kind'] == 'fn']
    if len(bs) != 1:
        for b in bs[:20]:
            print(b['id'], '|', b['name'])
        sys.exit(1)
    E = make_engine(prog, K=int(sys.argv[2]) if len(sys.argv) > 2 else 8)
    t = time.time()
    rets = run_entry(E, bs[0])
    print('time %.2fs, %d return states' % (time.time() - t, len(rets)))
    for st, v in rets[:6]:
        print('  ret:', A.show_val(E.deep_resolve(st, v)) if v[0] in ('I', 'F', 'E', 'S') else v[0], str(E.deep_resolve(st, v))[:300])
    report(E, only_open='-a' not in sys.argv)
    ext = sorted(E.ext_calls.items(), key=lambda x: -x[1])
    print('external (unmodelled) callees:', len(ext))
    for k, v in ext[:60]:
        print('   ', v, k)
