"""Engine D helpers: place typing (field names), a coarse taint dataflow over one MIR body,
dominance-style path queries."""


def place_steps(prog, body, place):
    """[(parent adt name, variant name or None, field name, field type id)] for the field
    projections of a place, looking through derefs"""
    out = []
    ty = body['locals'][place['l']]
    var = None
    for e in place['p']:
        t = prog.types[ty] if ty is not None else None
        if e[0] == 'deref':
            if t is None:
                return out
            if t['k'] in ('ref', 'ptr'):
                ty = t['to']
            elif t['k'] == 'adt' and t.get('args'):
                ty = t['args'][0]
            else:
                ty = None
        elif e[0] == 'downcast':
            var = e[1]
        elif e[0] == 'field':
            pname, vname, fname = None, None, str(e[1])
            if t is not None and t['k'] == 'adt' and t.get('variants'):
                v = t['variants'][var if var is not None else 0]
                pname = t['name']
                vname = v['name'] if var is not None else None
                if e[1] < len(v['fields']):
                    fname = v['fields'][e[1]]['name']
            elif t is not None and t['k'] in ('closure', 'coroutine'):
                pname = t['k']
            out.append((pname, vname, fname, e[2]))
            ty = e[2]
            var = None
        elif e[0] in ('index', 'cidx', 'subslice'):
            if t is not None and t['k'] in ('slice', 'array'):
                ty = t['elem']
            else:
                ty = None
    return out


def operand_places(o):
    return [o['pl']] if o['k'] in ('copy', 'move') else []


def rvalue_places(rv):
    k = rv['k']
    if k in ('use', 'repeat', 'cast'):
        return operand_places(rv['op'])
    if k in ('ref', 'rawptr', 'discr'):
        return [rv['pl']]
    if k == 'bin':
        return operand_places(rv['l']) + operand_places(rv['r'])
    if k == 'un':
        return operand_places(rv['x'])
    if k == 'agg':
        out = []
        for o in rv['ops']:
            out += operand_places(o)
        return out
    return []


class Taint:
    """flow-insensitive, field-insensitive taint over the locals of one body.
    labels: whatever `source(place)` returns for a read place, plus ('call', short name) tags added
    by `call_tag(callee)`; `call_result(callee, arg taints, args)` may override the result taint."""

    def __init__(self, prog, body, source, call_tag=None, call_result=None):
        self.prog, self.body = prog, body
        self.t = {}
        self.source = source
        self.call_tag = call_tag
        self.call_result = call_result
        self.solve()

    def place_taint(self, pl):
        s = set(self.t.get(pl['l'], ()))
        src = self.source(pl)
        if src:
            s |= set(src)
        for e in pl['p']:
            if e[0] == 'index':
                s |= self.t.get(e[1], set())
        return s

    def operand_taint(self, o):
        if o['k'] in ('copy', 'move'):
            return self.place_taint(o['pl'])
        return set()

    def rvalue_taint(self, rv):
        s = set()
        for p in rvalue_places(rv):
            s |= self.place_taint(p)
        return s

    def add(self, l, s):
        cur = self.t.setdefault(l, set())
        if not s <= cur:
            cur |= s
            return True
        return False

    def solve(self):
        body = self.body
        changed = True
        n = 0
        while changed and n < 50:
            changed = False
            n += 1
            for bb in body['blocks']:
                for st in bb['s']:
                    if st['k'] == 'assign':
                        changed |= self.add(st['pl']['l'], self.rvalue_taint(st['rv']))
                t = bb['t']
                if not t:
                    continue
                if t['k'] == 'call':
                    ats = [self.operand_taint(a) for a in t['args']]
                    allt = set().union(*ats) if ats else set()
                    c = t['callee']
                    res = set(allt)
                    if c and self.call_tag:
                        tg = self.call_tag(c)
                        if tg:
                            res.add(tg)
                    if c and self.call_result:
                        r2 = self.call_result(c, ats, t['args'])
                        if r2 is not None:
                            res = set(r2)
                    changed |= self.add(t['dest']['l'], res)
                    # a callee may write through its mutable reference arguments
                    for a in t['args']:
                        if a['k'] in ('copy', 'move'):
                            ty = self.prog.types[body['locals'][a['pl']['l']]]
                            if ty['k'] == 'ref' and ty.get('mut') and not a['pl']['p']:
                                changed |= self.add(a['pl']['l'], allt)
                elif t['k'] == 'yield':
                    changed |= self.add(t['resume_arg']['l'], self.operand_taint(t['value']))


def succs(t):
    if not t:
        return []
    k = t['k']
    if k == 'goto':
        return [t['t']]
    if k == 'switch':
        return [x[1] for x in t['vals']] + [t['otherwise']]
    if k in ('drop', 'assert', 'yield'):
        return [t['t']]
    if k == 'call':
        return [t['t']] if t['t'] is not None else []
    return []


def reachable(body, start, avoid=()):
    seen = set()
    work = [start]
    avoid = set(avoid)
    while work:
        b = work.pop()
        if b in seen or b in avoid:
            continue
        seen.add(b)
        work.extend(succs(body['blocks'][b]['t']))
    return seen


def return_blocks(body):
    return [i for i, bb in enumerate(body['blocks']) if bb['t'] and bb['t']['k'] == 'return' and not bb.get('cleanup')]


def every_path_passes(body, frm, through):
    """every path from block `frm` to a return goes through one of the blocks `through`"""
    r = reachable(body, frm, avoid=through)
    return not any(b in r for b in return_blocks(body))


def in_cycle(body, b):
    for s in succs(body['blocks'][b]['t']):
        if b in reachable(body, s):
            return True
    return False
