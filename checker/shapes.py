"""Engine B: serde shapes read off the MIR of every `Serialize::serialize` body of the workspace.

For a type T and a serializer mode ('json' | 'flat' | ('tagged', tag, name)) `Shapes.shape(T, mode)`
returns a list of alternatives (one per enum variant / per emitting path), each a dict
    {'variant': name or None, 'kind': 'object'|'string'|'number'|'bool'|'seq'|'null'|'unit'|...,
     'keys': {key: {'optional': bool, 'ty': type id, 'src': field path or None, 'const': str or None}},
     'errors': [text], 'dups': [key]}
The walk is a forward may/must dataflow over the CFG of the serialize body, per match arm on the
discriminant of `self`.  Calls on the generic serializer are interpreted with the semantics of
serde 1.0.219 (json serializer, FlatMapSerializer, TaggedSerializer)."""
from props import util

SCALAR_METHODS = {
    'serialize_bool': 'bool', 'serialize_i8': 'number', 'serialize_i16': 'number', 'serialize_i32': 'number', 'serialize_i64': 'number',
    'serialize_i128': 'number', 'serialize_u8': 'number', 'serialize_u16': 'number', 'serialize_u32': 'number', 'serialize_u64': 'number',
    'serialize_u128': 'number', 'serialize_f32': 'float', 'serialize_f64': 'float', 'serialize_char': 'string', 'serialize_str': 'string',
    'serialize_bytes': 'seq', 'collect_str': 'string',
}
# what FlatMapSerializer / TaggedSerializer reject (serde 1.0.219 private/ser.rs)
FLAT_REJECT = {'bool': 'a boolean', 'number': 'an integer', 'float': 'a float', 'string': 'a string', 'seq': 'a sequence', 'tuple': 'a tuple',
               'tuple_struct': 'a tuple struct'}
TAGGED_REJECT = dict(FLAT_REJECT, **{'option': 'an optional', 'tuple_variant': 'a tuple variant'})
SERDE_VERSION = '1.0.219'


def strip_ref(prog, tyid):
    while tyid is not None and prog.types[tyid]['k'] == 'ref':
        tyid = prog.types[tyid]['to']
    return tyid


class Shapes:
    def __init__(self, prog):
        self.prog = prog
        self.cache = {}
        self.impls = {}
        self.impl_by_ty = {}
        for b in prog.bodies.values():
            im = b.get('impl')
            if b['kind'] == 'fn' and b['item'] == 'serialize' and im and (im.get('trait') or '').endswith('Serialize'):
                self.impls.setdefault(im['self'], []).append(b)
                # also by the type of `self`: the `__SerializeWith<'__a>` wrappers the derive writes for
                # `serialize_with` print a lifetime in the impl header that the type's name does not have
                if b['argc'] >= 1:
                    self.impl_by_ty.setdefault(strip_ref(prog, b['locals'][1]), []).append(b)
        self.stack = []
        self.fnstack = []

    # ---- types without a workspace impl
    def builtin(self, tyid, mode):
        ty = self.prog.types[tyid]
        k = ty['k']
        if k in ('int', 'uint'):
            return self.scalar('number', mode)
        if k == 'float':
            return self.scalar('float', mode)
        if k == 'bool':
            return self.scalar('bool', mode)
        if k in ('char', 'str'):
            return self.scalar('string', mode)
        if k == 'ref':
            return self.shape(ty['to'], mode)
        if k in ('slice', 'array'):
            return self.scalar('seq', mode, elem=ty['elem'])
        if k == 'tuple':
            return self.scalar('unit' if not ty['elems'] else 'tuple', mode)
        if k == 'adt':
            n = ty['name']
            if n in ('alloc::string::String', 'std::string::String'):
                return self.scalar('string', mode)
            if n in ('alloc::vec::Vec', 'std::vec::Vec'):
                return self.scalar('seq', mode, elem=ty['args'][0] if ty['args'] else None)
            if n in ('core::option::Option', 'std::option::Option'):
                inner = ty['args'][0]
                if mode == 'json':
                    alts = [dict(a) for a in self.shape(inner, mode)]
                    return [{'variant': 'None', 'kind': 'null', 'keys': {}, 'errors': [], 'dups': []}] + alts
                if mode == 'flat':
                    return [{'variant': 'None', 'kind': 'nothing', 'keys': {}, 'errors': [], 'dups': []}] + self.shape(inner, mode)
                return [self.err('cannot serialize tagged newtype variant containing an optional')]
            if n in ('alloc::boxed::Box', 'std::boxed::Box'):
                return self.shape(ty['args'][0], mode)
        return [{'variant': None, 'kind': 'opaque:' + ty['s'], 'keys': {}, 'errors': [], 'dups': []}]

    def err(self, text):
        return {'variant': None, 'kind': 'error', 'keys': {}, 'errors': [text], 'dups': []}

    def scalar(self, kind, mode, elem=None):
        a = {'variant': None, 'kind': kind, 'keys': {}, 'errors': [], 'dups': []}
        if elem is not None:
            a['elem'] = elem
        if mode == 'flat' and kind in FLAT_REJECT:
            a['errors'] = ['can only flatten structs and maps (got %s)' % FLAT_REJECT[kind]]
        elif mode == 'flat' and kind == 'unit':
            a['kind'] = 'nothing'
        elif isinstance(mode, tuple) and kind in TAGGED_REJECT:
            a['errors'] = ['cannot serialize tagged newtype variant containing %s' % TAGGED_REJECT[kind]]
        elif isinstance(mode, tuple) and kind == 'unit':
            a['kind'] = 'object'
            a['keys'] = {mode[1]: {'optional': False, 'ty': None, 'src': None, 'const': mode[2]}}
        return [a]

    # ---- entry
    def shape(self, tyid, mode='json'):
        tyid = strip_ref(self.prog, tyid)
        key = (tyid, mode)
        if key in self.cache:
            return self.cache[key]
        if key in self.stack:
            return [{'variant': None, 'kind': 'recursive', 'keys': {}, 'errors': [], 'dups': []}]
        ty = self.prog.types[tyid]
        name = ty.get('name') if ty['k'] == 'adt' else None
        short = name.split('::', 1)[1] if name and name.startswith(('rs1090::', 'jet1090::', 'decode1090::')) else name
        bodies = self.impls.get(name) or self.impls.get(short) or self.impl_by_ty.get(tyid) or []
        self.stack.append(key)
        try:
            if bodies:
                res = self.walk(bodies[0], tyid, mode)
            else:
                res = self.builtin(tyid, mode)
        finally:
            self.stack.pop()
        self.cache[key] = res
        return res

    # ---- the walk
    def place_src(self, body, op, depth=0):
        """field path ((variant, field), ...) of `self` that an operand refers to, or None"""
        if depth > 6 or op['k'] == 'const':
            return None
        pl = op['pl']
        if pl['l'] == 1:
            path = []
            var = None
            for e in pl['p']:
                if e[0] == 'downcast':
                    var = e[1]
                elif e[0] == 'field':
                    path.append((var, e[1]))
                    var = None
            return tuple(path)
        if pl['p'] and not all(e[0] == 'deref' for e in pl['p']):
            inner = self.place_src(body, {'k': 'copy', 'pl': {'l': pl['l'], 'p': []}}, depth + 1)
            if inner is None:
                return None
            path = list(inner)
            var = None
            for e in pl['p']:
                if e[0] == 'downcast':
                    var = e[1]
                elif e[0] == 'field':
                    path.append((var, e[1]))
                    var = None
            return tuple(path)
        defs = []
        for bb in body['blocks']:
            for st in bb['s']:
                if st['k'] == 'assign' and st['pl']['l'] == pl['l'] and not st['pl']['p']:
                    defs.append(st['rv'])
        if len(defs) != 1:
            return None
        rv = defs[0]
        if rv['k'] in ('use', 'cast'):
            return self.place_src(body, rv['op'], depth + 1)
        if rv['k'] == 'ref':
            return self.place_src(body, {'k': 'copy', 'pl': rv['pl']}, depth + 1)
        return None

    def walk(self, body, tyid, mode):
        prog = self.prog
        ty = prog.types[tyid]
        blocks = body['blocks']
        # arms: the first switch on the discriminant of *self
        arms = [(None, 0)]
        if ty['k'] == 'adt' and ty['ak'] == 'enum':
            found = None
            for bi, bb in enumerate(blocks):
                t = bb['t']
                if t and t['k'] == 'switch':
                    op = t['op']
                    if op['k'] in ('copy', 'move') and not op['pl']['p']:
                        for st in bb['s']:
                            if st['k'] == 'assign' and st['pl']['l'] == op['pl']['l'] and st['rv']['k'] == 'discr':
                                found = (bi, t)
                if found:
                    break
            if found:
                bi, t = found
                arms = []
                used = set()
                discr2var = {}
                for vi, v in enumerate(ty['variants']):
                    d = int(v['discr']) if v['discr'] is not None else vi
                    discr2var[d] = vi
                for val, dst in t['vals']:
                    vi = discr2var.get(val, val)
                    arms.append((vi, dst))
                    used.add(vi)
                rest = [vi for vi in range(len(ty['variants'])) if vi not in used]
                if len(rest) == 1:
                    arms.append((rest[0], t['otherwise']))
                elif rest:
                    arms.append((('others', tuple(rest)), t['otherwise']))
        out = []
        for vi, entry in arms:
            alt = self.walk_arm(body, entry, mode)
            if isinstance(vi, int):
                alt['variant'] = ty['variants'][vi]['name']
                alt['variant_index'] = vi
            elif vi is not None:
                alt['variant'] = 'others'
            out.extend(self.expand_children(alt, mode))
        return out

    def succs(self, t):
        if not t:
            return []
        k = t['k']
        if k == 'goto':
            return [t['t']]
        if k == 'switch':
            return [x[1] for x in t['vals']] + [t['otherwise']]
        if k in ('drop', 'assert'):
            return [t['t']]
        if k == 'call':
            return [t['t']] if t['t'] is not None else []
        return []

    def walk_arm(self, body, entry, mode):
        prog = self.prog
        blocks = body['blocks']
        # reachable sub-graph + topological order (serialize bodies have no loops except seq loops)
        order = []
        seen = set()
        stack = [(entry, iter(self.succs(blocks[entry]['t'])))]
        seen.add(entry)
        while stack:
            n, it = stack[-1]
            adv = False
            for s in it:
                if s not in seen:
                    seen.add(s)
                    stack.append((s, iter(self.succs(blocks[s]['t']))))
                    adv = True
                    break
            if not adv:
                order.append(n)
                stack.pop()
        order.reverse()
        state = {entry: {'may': {}, 'must': set(), 'kind': None, 'errors': [], 'dups': [], 'children': [], 'mustchildren': set()}}
        final = None

        def join(a, b):
            if a is None:
                return b
            may = dict(a['may'])
            for k, v in b['may'].items():
                may.setdefault(k, v)
            ch = list(a['children'])
            for c in b['children']:
                if c not in ch:
                    ch.append(c)
            return {'may': may, 'must': a['must'] & b['must'], 'kind': a['kind'] or b['kind'],
                    'errors': a['errors'] + [e for e in b['errors'] if e not in a['errors']],
                    'dups': a['dups'] + [d for d in b['dups'] if d not in a['dups']], 'children': ch,
                    'mustchildren': a['mustchildren'] & b['mustchildren']}
        for bi in order:
            st = state.get(bi)
            if st is None:
                continue
            t = blocks[bi]['t']
            st = {'may': dict(st['may']), 'must': set(st['must']), 'kind': st['kind'], 'errors': list(st['errors']),
                  'dups': list(st['dups']), 'children': list(st['children']), 'mustchildren': set(st['mustchildren'])}
            kill = False
            if t and t['k'] == 'call' and t['callee']:
                kill = self.event(body, t, st, mode)
            if t and t['k'] == 'return':
                final = join(final, st)
            if kill:
                continue
            for s in self.succs(t):
                state[s] = join(state.get(s), st) if s in state else st
        if final is None:
            final = {'may': {}, 'must': set(), 'kind': 'unknown', 'errors': ['no Ok return path found'], 'dups': [], 'children': [], 'mustchildren': set()}
        keys = {}
        for k, info in final['may'].items():
            info = dict(info)
            info['optional'] = k not in final['must']
            keys[k] = info
        return {'variant': None, 'kind': final['kind'] or 'unknown', 'keys': keys, 'errors': final['errors'], 'dups': final['dups'],
                'children': [(c, c in final['mustchildren']) for c in final['children']]}

    def add_key(self, st, key, info):
        if key in st['may']:
            if key not in st['dups']:
                st['dups'].append(key)
        st['may'].setdefault(key, info)
        st['must'].add(key)

    def open_object(self, st, mode):
        st['kind'] = 'object' if mode != 'flat' else 'flat-object'
        if isinstance(mode, tuple):
            self.add_key(st, mode[1], {'ty': None, 'src': None, 'const': mode[2]})

    def const_str(self, body, op):
        b = util.const_bytes_of_operand(self.prog, body, op)
        return b.decode('utf8', 'replace') if b is not None else None

    def event(self, body, t, st, mode):
        """interpret one call; returns True when the path is an error exit"""
        c = t['callee']
        item = c.get('item')
        name = c.get('name') or ''
        args = t['args']
        if item == 'from_residual':
            return True
        if item == 'custom' and 'ser::Error>::custom' in name:
            # an Err built by the impl itself (serde derive emits it for `#[serde(skip)]` on a variant:
            # "the enum variant X cannot be serialized"): the value on this path is not serialisable
            msg = self.const_str(body, args[0]) if args else None
            st['errors'].append('serialize returns Error::custom(%s)' % (repr(msg) if msg else '..'))
            st['kind'] = 'error'
            st['custom_error'] = True
            return False
        if item in ('serialize_struct', 'serialize_map'):
            self.open_object(st, mode)
            return False
        if item in ('serialize_field', 'serialize_entry') and len(args) >= 3:
            key = self.const_str(body, args[1])
            vty = c['targs'][-1] if c.get('targs') else None
            info = {'ty': vty, 'src': self.place_src(body, args[2]), 'const': self.const_str(body, args[2])}
            if key is None:
                st['errors'].append('non-constant key in %s' % item)
            else:
                self.add_key(st, key, info)
            return False
        if item == 'serialize_tagged_newtype' and len(args) >= 6:
            tag = self.const_str(body, args[3])
            vname = self.const_str(body, args[4])
            vty = c['targs'][-1]
            st['children'].append(('tagged', vty, tag, vname, self.place_src(body, args[5])))
            st['mustchildren'].add(st['children'][-1])
            st['kind'] = st['kind'] or 'delegated'
            return False
        if item == 'serialize' and name.endswith('>') and 'Serialize>::serialize' in name and len(args) >= 2:
            # <X as Serialize>::serialize::<S'>(value, serializer')
            xty = c['targs'][0]
            sname = prog_type_name(self.prog, c['targs'][1]) if len(c['targs']) > 1 else ''
            child_mode = 'flat' if 'FlatMapSerializer' in sname else 'same'
            ch = (child_mode, xty, None, None, self.place_src(body, args[0]))
            st['children'].append(ch)
            st['mustchildren'].add(ch)
            if child_mode == 'same':
                st['kind'] = st['kind'] or 'delegated'
            return False
        rdid = c.get('rdid') or c.get('did')
        wb = self.prog.bodies.get(rdid)
        if wb is not None and wb['kind'] == 'fn' and item != 'serialize' and wb['id'] not in self.fnstack \
                and any(self.prog.types[l]['k'] == 'param' for l in wb['locals'][1:wb['argc'] + 1]):
            # a workspace helper taking the serializer (serialize_with = "...", as_hex, ...): its
            # events belong to the current path
            self.fnstack.append(wb['id'])
            try:
                sub = self.walk_arm(wb, 0, mode)
            finally:
                self.fnstack.pop()
            for k2, info in sub['keys'].items():
                info = dict(info, src=None)
                opt = info.pop('optional', False)
                if k2 in st['may'] and k2 not in st['dups']:
                    st['dups'].append(k2)
                st['may'].setdefault(k2, info)
                if not opt:
                    st['must'].add(k2)
            st['errors'] += [e for e in sub['errors'] if e not in st['errors']]
            st['dups'] += [d for d in sub['dups'] if d not in st['dups']]
            for ch, must in sub.get('children', []):
                st['children'].append(ch)
                if must:
                    st['mustchildren'].add(ch)
            if sub['kind'] not in (None, 'unknown'):
                st['kind'] = sub['kind'] if st['kind'] in (None, 'delegated') else st['kind']
            return False
        if item in SCALAR_METHODS:
            k = SCALAR_METHODS[item]
            a = self.scalar(k, mode)[0]
            st['kind'] = a['kind']
            st['errors'] += a['errors']
            return False
        if item in ('serialize_unit', 'serialize_unit_struct'):
            a = self.scalar('unit', mode)[0]
            st['kind'] = a['kind']
            for k2, v2 in a['keys'].items():
                self.add_key(st, k2, v2)
            return False
        if item == 'serialize_none':
            a = self.scalar('unit', mode)[0] if mode == 'flat' else (self.scalar('option', mode)[0] if isinstance(mode, tuple) else {'kind': 'null', 'errors': [], 'keys': {}})
            st['kind'] = a['kind']
            st['errors'] += a['errors']
            return False
        if item == 'serialize_some' and args:
            vty = c['targs'][-1]
            if isinstance(mode, tuple):
                st['errors'].append('cannot serialize tagged newtype variant containing an optional')
            else:
                ch = ('same', vty, None, None, self.place_src(body, args[-1]))
                st['children'].append(ch)
                st['mustchildren'].add(ch)
                st['kind'] = st['kind'] or 'delegated'
            return False
        if item == 'serialize_unit_variant' and len(args) >= 4:
            v = self.const_str(body, args[3])
            if mode == 'json':
                st['kind'] = 'string'
                st['const'] = v
            else:
                self.open_object(st, mode)
                self.add_key(st, v, {'ty': None, 'src': None, 'const': None})
            return False
        if item == 'serialize_newtype_variant' and len(args) >= 5:
            v = self.const_str(body, args[3])
            vty = c['targs'][-1]
            self.open_object(st, mode) if mode != 'json' else st.__setitem__('kind', 'object')
            self.add_key(st, v, {'ty': vty, 'src': self.place_src(body, args[4]), 'const': None})
            return False
        if item == 'serialize_newtype_struct' and len(args) >= 3:
            vty = c['targs'][-1]
            ch = ('same', vty, None, None, self.place_src(body, args[2]))
            st['children'].append(ch)
            st['mustchildren'].add(ch)
            st['kind'] = st['kind'] or 'delegated'
            return False
        if item in ('serialize_seq', 'serialize_tuple', 'serialize_tuple_struct', 'serialize_tuple_variant', 'serialize_struct_variant'):
            kind = {'serialize_seq': 'seq', 'serialize_tuple': 'tuple', 'serialize_tuple_struct': 'tuple_struct',
                    'serialize_tuple_variant': 'tuple_variant', 'serialize_struct_variant': 'struct_variant'}[item]
            if kind == 'struct_variant':
                v = self.const_str(body, args[3]) if len(args) >= 4 else None
                if isinstance(mode, tuple):
                    st['errors'].append('cannot serialize tagged newtype variant containing an enum')
                elif mode == 'flat':
                    st['kind'] = 'flat-object'
                    self.add_key(st, v, {'ty': None, 'src': None, 'const': None})
                    st['in_struct_variant'] = True
                else:
                    st['kind'] = 'object'
                return False
            if kind == 'tuple_variant' and mode == 'flat':
                v = self.const_str(body, args[3]) if len(args) >= 4 else None
                st['kind'] = 'flat-object'
                self.add_key(st, v, {'ty': None, 'src': None, 'const': None})
                return False
            a = self.scalar(kind if kind in ('seq', 'tuple', 'tuple_struct', 'tuple_variant') else 'seq', mode)[0]
            st['kind'] = 'seq' if not a['errors'] else a['kind']
            st['errors'] += a['errors']
            return False
        return False

    def expand_children(self, alt, mode):
        """inline flattened / delegated children: one alternative per combination (bounded)"""
        alts = [alt]
        for ch, must in alt.pop('children', []):
            cmode, cty, tag, vname, src = ch
            if cmode == 'flat':
                m = 'flat'
            elif cmode == 'tagged':
                # TaggedSerializer delegates to our serializer: in flat mode the map continues the parent
                m = ('tagged', tag, vname)
            else:
                m = mode
            csh = self.shape(cty, m)
            new = []
            for a in alts:
                for c in csh[:64]:
                    b = {'variant': a['variant'], 'kind': a['kind'], 'keys': dict(a['keys']), 'errors': list(a['errors']), 'dups': list(a['dups'])}
                    for k in ('variant_index', 'const'):
                        if k in a:
                            b[k] = a[k]
                    b['via'] = a.get('via', []) + [(prog_type_name(self.prog, cty), c.get('variant'))] + list(c.get('via', []))
                    for k, info in c['keys'].items():
                        info = dict(info)
                        if src is not None and info.get('src') is not None:
                            info['src'] = tuple(src) + tuple(info['src'])
                        elif src is not None and cmode == 'same' and info.get('src') is None:
                            info['src'] = None
                        if k in b['keys'] and k not in b['dups']:
                            b['dups'].append(k)
                        b['keys'].setdefault(k, info)
                        if not must:
                            b['keys'][k] = dict(b['keys'][k], optional=True)
                    b['errors'] += ['%s%s: %s' % (prog_type_name(self.prog, cty), ('::' + c['variant']) if c.get('variant') else '', e) for e in c['errors']]
                    b['dups'] += [d for d in c['dups'] if d not in b['dups']]
                    if cmode in ('same', 'tagged') and a['kind'] in ('delegated', None):
                        b['kind'] = c['kind'] if not (cmode == 'tagged' and mode == 'flat') else 'flat-object'
                        if 'const' in c:
                            b['const'] = c['const']
                    new.append(b)
            alts = new[:256]
        for a in alts:
            if a['kind'] == 'flat-object' and mode == 'json':
                a['kind'] = 'object'
        return alts


def prog_type_name(prog, tyid):
    if tyid is None:
        return '?'
    t = prog.types[strip_ref(prog, tyid)]
    return t.get('name') or t['s']


def resolve_path(prog, tyid, path):
    """follow a source path ((variant, field), ...) from a root type; Option / Box / references are
    looked through.  Returns (type id of the final field, [names])"""
    names = []
    cur = strip_ref(prog, tyid)
    for var, fi in path:
        while True:
            ty = prog.types[cur]
            if ty['k'] == 'adt' and ty['name'] in ('core::option::Option', 'std::option::Option', 'alloc::boxed::Box', 'std::boxed::Box') and ty['args']:
                cur = strip_ref(prog, ty['args'][0])
                continue
            break
        if ty['k'] == 'tuple':
            cur = strip_ref(prog, ty['elems'][fi])
            names.append(str(fi))
            continue
        if ty['k'] != 'adt' or not ty.get('variants'):
            return None, names
        v = ty['variants'][var if var is not None else 0]
        if fi >= len(v['fields']) or 'ty' not in v['fields'][fi]:
            return None, names
        names.append(('%s::' % v['name'] if var is not None else '') + v['fields'][fi]['name'])
        cur = strip_ref(prog, v['fields'][fi]['ty'])
    return cur, names
