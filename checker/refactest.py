"""Run every registered quick check against a behaviour-preserving refactoring delivered by a sub-agent.

usage: refactest.py <area> <worktree> <k>
  <worktree>/REFAC/refactor<k>.diff, notes<k>.md
Steps: (1) in the scratch worktree: apply, `cargo test --workspace --offline` must pass, revert;
       (2) apply to /repo, run all claimed checks in parallel (quick), revert;
       (3) write /verif/refactors/<area>-r<k>/{patch.diff, notes.md, meta.json}.
An alarm here is a false alarm of the check (the refactoring keeps the behaviour) unless triage shows
that the refactoring does change behaviour."""
import json
import os
import shutil
import subprocess
import sys
from concurrent.futures import ThreadPoolExecutor

VERIF = os.path.dirname(os.path.dirname(os.path.abspath(__file__)))


def sh(cmd, cwd, env=None, timeout=7200):
    r = subprocess.run(cmd, cwd=cwd, shell=True, stdout=subprocess.PIPE, stderr=subprocess.STDOUT, text=True, env=env, timeout=timeout)
    return r.returncode, r.stdout


def main():
    area, wt, k = sys.argv[1], sys.argv[2], sys.argv[3]
    diff = os.path.join(wt, 'REFAC', 'refactor%s.diff' % k)
    notes = os.path.join(wt, 'REFAC', 'notes%s.md' % k)
    meta = {'area': area, 'source': 'independent sub-agent asked for behaviour-preserving refactorings', 'checks': {}}
    env = dict(os.environ, CARGO_TARGET_DIR=os.path.join(wt, 'target'), CARGO_NET_OFFLINE='true')
    sh('git checkout -- .', wt)
    rc, out = sh('git apply %s' % diff, wt)
    if rc != 0:
        print('refactor %s-%s: diff does not apply: %s' % (area, k, out[-300:]))
        return 1
    rc, out = sh('cargo test --workspace --offline 2>&1', wt, env)
    ok = 'test result: FAILED' not in out and 'error: ' not in out and 'error[' not in out and out.count('test result: ok') >= 3
    meta['suite_green'] = ok
    sh('git checkout -- .', wt)
    if not ok:
        print('refactor %s-%s: suite not green, skipped' % (area, k))
        return 1
    m = json.load(open(os.path.join(VERIF, 'MANIFEST.json')))
    props = [c['property_id'] for c in m['checks']]
    rc, out = sh('git apply %s' % diff, '/repo')
    if rc != 0:
        print('cannot apply to /repo: ' + out[-300:])
        return 1
    try:
        # one driver run first (facts are shared), then all checks in parallel
        ev = '/tmp/refactest-evidence'
        env2 = dict(os.environ, VERIF_EVIDENCE_DIR=ev)
        sh('./check %s quick' % props[-1], VERIF, env2)

        def one(p):
            return p, sh('./check %s quick' % p, VERIF, env2)
        with ThreadPoolExecutor(8) as ex:
            for p, (rc, out) in ex.map(one, props):
                lines = [l for l in out.splitlines() if l.startswith('VIOLATION') or l.startswith('  rule') or l.startswith('  key') or l.startswith('  detail')]
                meta['checks'][p] = {'exit': rc, 'report': lines[:12]}
    finally:
        sh('git checkout -- .', '/repo')
        shutil.rmtree('/tmp/refactest-evidence', ignore_errors=True)
    alarms = sorted(p for p, r in meta['checks'].items() if r['exit'] != 0)
    meta['alarms'] = alarms
    dst = os.path.join(VERIF, 'refactors', '%s-r%s' % (area, k))
    os.makedirs(dst, exist_ok=True)
    shutil.copy(diff, os.path.join(dst, 'patch.diff'))
    if os.path.exists(notes):
        shutil.copy(notes, os.path.join(dst, 'notes.md'))
    json.dump(meta, open(os.path.join(dst, 'meta.json'), 'w'), indent=1)
    print('refactor %s-%s: suite green, alarms: %s' % (area, k, alarms or 'none'))
    for p in alarms:
        for l in meta['checks'][p]['report'][:8]:
            print('    ' + l[:260])
    return 0


if __name__ == '__main__':
    sys.exit(main())
