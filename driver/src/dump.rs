use crate::json::J;
use crate::obj;
use rustc_hir::def::DefKind;
use rustc_hir::def_id::DefId;
use rustc_middle::mir::interpret::{AllocId, GlobalAlloc, Scalar};
use rustc_middle::mir::*;
use rustc_middle::ty::print::{with_no_trimmed_paths, PrintTraitRefExt};
use rustc_middle::ty::TypeVisitableExt;
use rustc_middle::ty::{self, GenericArgsRef, Instance, Ty, TyCtxt, TypingEnv};
use rustc_span::Span;
use std::collections::HashMap;

#[derive(Default)]
pub struct Collected {
    pub bodies: Vec<J>,
    pub type_ix: HashMap<String, usize>,
    pub types: Vec<J>,
    pub alloc_ix: HashMap<u64, usize>,
    pub allocs: Vec<J>,
    pub done_bodies: Vec<String>,
}

struct Cx<'a, 'tcx> {
    tcx: TyCtxt<'tcx>,
    c: &'a mut Collected,
    env: TypingEnv<'tcx>,
    // when true, constants that refer to promoted bodies of the current item are not
    // evaluated (evaluation would run borrowck and steal the MIR we are reading)
    no_promoted_eval: bool,
    cur_file: String,
}

pub fn did_key(tcx: TyCtxt<'_>, did: DefId) -> String {
    format!("{}{}", tcx.crate_name(did.krate), tcx.def_path(did).to_string_no_crate_verbose())
}

fn short_path(f: String) -> String {
    if let Some(i) = f.find("/registry/src/") {
        let rest = &f[i + 14..];
        if let Some(j) = rest.find('/') {
            return format!("~{}", &rest[j..]);
        }
    }
    if let Some(i) = f.find("/rustlib/src/rust/") {
        return format!("~rust/{}", &f[i + 18..]);
    }
    f
}

fn hex(bytes: &[u8]) -> String {
    let mut s = String::with_capacity(bytes.len() * 2);
    for b in bytes {
        s.push_str(&format!("{:02x}", b));
    }
    s
}

impl<'a, 'tcx> Cx<'a, 'tcx> {
    fn span(&self, sp: Span) -> J {
        let sm = self.tcx.sess.source_map();
        let loc = sm.lookup_char_pos(sp.lo());
        let f = short_path(format!("{}", loc.file.name.prefer_local_unconditionally()));
        let exp = if sp.from_expansion() { "!" } else { "" };
        if f == self.cur_file {
            J::Str(format!("{}{}", loc.line, exp))
        } else {
            J::Str(format!("{}:{}{}", f, loc.line, exp))
        }
    }

    fn ty(&mut self, ty: Ty<'tcx>) -> J {
        J::Int(self.ty_id(ty) as i128)
    }

    fn ty_id(&mut self, ty: Ty<'tcx>) -> usize {
        let tcx = self.tcx;
        let ty = tcx.erase_and_anonymize_regions(ty);
        let shown = with_no_trimmed_paths!(format!("{}", ty));
        // closures written by one macro expansion share their span, hence their printed name:
        // the interning key also carries the DefIds of every closure-like type inside `ty`
        let mut key = shown.clone();
        if shown.contains("{closure") || shown.contains("{coroutine") || shown.contains("{async") {
            for arg in ty.walk() {
                if let Some(t) = arg.as_type() {
                    match t.kind() {
                        ty::Closure(did, _) | ty::Coroutine(did, _) | ty::CoroutineClosure(did, _) => {
                            key.push('|');
                            key.push_str(&did_key(tcx, *did));
                        }
                        _ => {}
                    }
                }
            }
        }
        if let Some(&i) = self.c.type_ix.get(&key) {
            return i;
        }
        let id = self.c.types.len();
        self.c.types.push(J::Null);
        self.c.type_ix.insert(key.clone(), id);
        let mut e = self.ty_entry(ty, shown.clone());
        if key != shown {
            if let J::Obj(ref mut o) = e {
                o.push(("uk", J::Str(key)));
            }
        }
        self.c.types[id] = e;
        id
    }

    fn expand_adt(&self, did: DefId) -> bool {
        if did.is_local() {
            return true;
        }
        let cn = self.tcx.crate_name(did.krate);
        let cn = cn.as_str();
        if cn == "rs1090" || cn == "jet1090" || cn == "decode1090" || cn == "deku" || cn == "crossterm" {
            return true;
        }
        let p = with_no_trimmed_paths!(self.tcx.def_path_str(did));
        p.starts_with("core::option::Option")
            || p.starts_with("std::option::Option")
            || p.starts_with("core::result::Result")
            || p.starts_with("std::result::Result")
            || p.starts_with("core::ops::")
            || p.starts_with("std::ops::")
            || p.starts_with("core::task::poll::Poll")
            || p.starts_with("std::task::Poll")
            || p.starts_with("core::cmp::Ordering")
            || p.starts_with("std::cmp::Ordering")
    }

    fn ty_entry(&mut self, ty: Ty<'tcx>, key: String) -> J {
        let tcx = self.tcx;
        let mut o: Vec<(&'static str, J)> = vec![("s", J::Str(key))];
        match ty.kind() {
            ty::Bool => o.push(("k", J::s("bool"))),
            ty::Char => o.push(("k", J::s("char"))),
            ty::Int(i) => {
                o.push(("k", J::s("int")));
                o.push(("bits", J::i(i.bit_width().unwrap_or(64))));
            }
            ty::Uint(i) => {
                o.push(("k", J::s("uint")));
                o.push(("bits", J::i(i.bit_width().unwrap_or(64))));
            }
            ty::Float(f) => {
                o.push(("k", J::s("float")));
                o.push(("bits", J::i(f.bit_width())));
            }
            ty::Str => o.push(("k", J::s("str"))),
            ty::Never => o.push(("k", J::s("never"))),
            ty::Adt(def, args) => {
                o.push(("k", J::s("adt")));
                o.push(("did", J::Str(did_key(tcx, def.did()))));
                o.push(("name", J::Str(with_no_trimmed_paths!(tcx.def_path_str(def.did())))));
                let ak = if def.is_enum() {
                    "enum"
                } else if def.is_union() {
                    "union"
                } else {
                    "struct"
                };
                o.push(("ak", J::s(ak)));
                let targs: Vec<J> = args.types().map(|t| self.ty(t)).collect();
                o.push(("args", J::Arr(targs)));
                let expand = self.expand_adt(def.did());
                let mut vs = vec![];
                let discrs: Vec<u128> = if def.is_enum() {
                    def.discriminants(tcx).map(|(_, d)| d.val).collect()
                } else {
                    vec![]
                };
                for (vi, v) in def.variants().iter().enumerate() {
                    let mut fs = vec![];
                    for f in v.fields.iter() {
                        if expand {
                            let fty = f.ty(tcx, args);
                            fs.push(obj! {"name": J::Str(f.name.to_string()), "ty": self.ty(fty)});
                        } else {
                            fs.push(obj! {"name": J::Str(f.name.to_string())});
                        }
                    }
                    let d = discrs.get(vi).map(|d| J::Str(format!("{}", d))).unwrap_or(J::Null);
                    vs.push(obj! {"name": J::Str(v.name.to_string()), "discr": d, "fields": J::Arr(fs)});
                }
                o.push(("variants", J::Arr(vs)));
            }
            ty::Ref(_, t, m) => {
                o.push(("k", J::s("ref")));
                o.push(("mut", J::Bool(m.is_mut())));
                let t = self.ty(*t);
                o.push(("to", t));
            }
            ty::RawPtr(t, m) => {
                o.push(("k", J::s("ptr")));
                o.push(("mut", J::Bool(m.is_mut())));
                let t = self.ty(*t);
                o.push(("to", t));
            }
            ty::Slice(t) => {
                o.push(("k", J::s("slice")));
                let t = self.ty(*t);
                o.push(("elem", t));
            }
            ty::Array(t, n) => {
                o.push(("k", J::s("array")));
                let t = self.ty(*t);
                o.push(("elem", t));
                let n = n.try_to_target_usize(tcx).map(|n| J::i(n)).unwrap_or(J::Null);
                o.push(("len", n));
            }
            ty::Tuple(ts) => {
                o.push(("k", J::s("tuple")));
                let v: Vec<J> = ts.iter().map(|t| self.ty(t)).collect();
                o.push(("elems", J::Arr(v)));
                // field offsets and size, when the layout is known (monomorphic tuple): constants of tuple
                // type (tables of pairs) are decoded with them
                let env = ty::TypingEnv::fully_monomorphized();
                if !ty.has_non_region_param() {
                    if let Ok(lay) = tcx.layout_of(env.as_query_input(ty)) {
                        let offs: Vec<J> = (0..ts.len()).map(|i| J::Int(lay.fields.offset(i).bytes() as i128)).collect();
                        o.push(("offs", J::Arr(offs)));
                        o.push(("size", J::Int(lay.size.bytes() as i128)));
                    }
                }
            }
            ty::Closure(did, args) => {
                o.push(("k", J::s("closure")));
                o.push(("did", J::Str(did_key(tcx, *did))));
                let ups: Vec<J> = args.as_closure().upvar_tys().iter().map(|t| self.ty(t)).collect();
                o.push(("upvars", J::Arr(ups)));
            }
            ty::Coroutine(did, args) => {
                o.push(("k", J::s("coroutine")));
                o.push(("did", J::Str(did_key(tcx, *did))));
                let ups: Vec<J> = args.as_coroutine().upvar_tys().iter().map(|t| self.ty(t)).collect();
                o.push(("upvars", J::Arr(ups)));
            }
            ty::CoroutineClosure(did, _) => {
                o.push(("k", J::s("coroutine_closure")));
                o.push(("did", J::Str(did_key(tcx, *did))));
            }
            ty::FnDef(did, args) => {
                o.push(("k", J::s("fndef")));
                o.push(("did", J::Str(did_key(tcx, *did))));
                o.push(("name", J::Str(with_no_trimmed_paths!(tcx.def_path_str_with_args(*did, args)))));
            }
            ty::FnPtr(..) => o.push(("k", J::s("fnptr"))),
            ty::Param(p) => {
                o.push(("k", J::s("param")));
                o.push(("name", J::Str(p.name.to_string())));
            }
            ty::Dynamic(..) => o.push(("k", J::s("dyn"))),
            ty::Alias(..) => o.push(("k", J::s("alias"))),
            ty::Foreign(..) => o.push(("k", J::s("foreign"))),
            _ => o.push(("k", J::s("other"))),
        }
        J::Obj(o)
    }

    fn alloc(&mut self, id: AllocId) -> J {
        let raw = id.0.get();
        if let Some(&i) = self.c.alloc_ix.get(&raw) {
            return J::Int(i as i128);
        }
        let ix = self.c.allocs.len();
        self.c.allocs.push(J::Null);
        self.c.alloc_ix.insert(raw, ix);
        let tcx = self.tcx;
        let e = match tcx.try_get_global_alloc(id) {
            Some(GlobalAlloc::Memory(a)) => self.alloc_mem(a.inner(), None),
            Some(GlobalAlloc::Static(did)) => {
                if tcx.is_foreign_item(did) || self.no_promoted_eval {
                    obj! {"k": J::s("static"), "did": J::Str(did_key(tcx, did))}
                } else {
                    match tcx.eval_static_initializer(did) {
                        Ok(a) => self.alloc_mem(a.inner(), Some(did_key(tcx, did))),
                        Err(_) => obj! {"k": J::s("static"), "did": J::Str(did_key(tcx, did))},
                    }
                }
            }
            Some(GlobalAlloc::Function { instance }) => {
                let did = instance.def_id();
                obj! {"k": J::s("fn"), "did": J::Str(did_key(tcx, did)),
                "name": J::Str(with_no_trimmed_paths!(tcx.def_path_str_with_args(did, instance.args)))}
            }
            Some(GlobalAlloc::VTable(..)) => obj! {"k": J::s("vtable")},
            _ => obj! {"k": J::s("other")},
        };
        self.c.allocs[ix] = e;
        J::Int(ix as i128)
    }

    fn alloc_mem(&mut self, a: &rustc_middle::mir::interpret::Allocation, st: Option<String>) -> J {
        let bytes = a.inspect_with_uninit_and_ptr_outside_interpreter(0..a.len());
        let mut ptrs = vec![];
        let provs: Vec<(u64, AllocId)> =
            a.provenance().ptrs().iter().map(|(off, p)| (off.bytes(), p.alloc_id())).collect();
        for (off, p) in provs {
            let t = self.alloc(p);
            ptrs.push(J::Arr(vec![J::i(off), t]));
        }
        let b = if bytes.len() > 1 << 20 { String::new() } else { hex(bytes) };
        obj! {"k": J::s("mem"), "len": J::i(bytes.len()), "bytes": J::Str(b), "ptrs": J::Arr(ptrs),
        "static": st.map(J::Str).unwrap_or(J::Null)}
    }

    fn const_value(&mut self, val: ConstValue, ty: Ty<'tcx>) -> J {
        let tcx = self.tcx;
        match val {
            ConstValue::Scalar(Scalar::Int(i)) => {
                let sz = i.size();
                obj! {"int": J::Str(format!("{}", i.to_bits(sz))), "size": J::i(sz.bytes())}
            }
            ConstValue::Scalar(Scalar::Ptr(ptr, _)) => {
                let (prov, off) = ptr.into_raw_parts();
                let a = self.alloc(prov.alloc_id());
                obj! {"ptr": a, "off": J::i(off.bytes())}
            }
            ConstValue::ZeroSized => obj! {"zst": J::Bool(true)},
            ConstValue::Slice { alloc_id, meta } => {
                let is_bytes = match ty.kind() {
                    ty::Ref(_, t, _) => match t.kind() {
                        ty::Str => true,
                        ty::Slice(e) => matches!(e.kind(), ty::Uint(ty::UintTy::U8)),
                        _ => false,
                    },
                    _ => false,
                };
                if is_bytes {
                    if let Some(b) = val.try_get_slice_bytes_for_diagnostics(tcx) {
                        return obj! {"bytes": J::Str(hex(b)), "len": J::i(meta)};
                    }
                }
                let a = self.alloc(alloc_id);
                obj! {"ptr": a, "off": J::i(0), "len": J::i(meta)}
            }
            ConstValue::Indirect { alloc_id, offset } => {
                let a = self.alloc(alloc_id);
                obj! {"alloc": a, "off": J::i(offset.bytes())}
            }
        }
    }

    fn constant(&mut self, c: &ConstOperand<'tcx>, owner: &str) -> J {
        let tcx = self.tcx;
        let ty = c.const_.ty();
        let tyj = self.ty(ty);
        if let ty::FnDef(did, args) = ty.kind() {
            return obj! {"k": J::s("const"), "ty": tyj, "v": obj!{
                "fn": J::Str(did_key(tcx, *did)),
                "name": J::Str(with_no_trimmed_paths!(tcx.def_path_str_with_args(*did, args)))}};
        }
        if let Const::Unevaluated(uv, _) = c.const_ {
            if let Some(p) = uv.promoted {
                if self.no_promoted_eval || true {
                    // always also say which promoted body this is
                    let pid = format!("{}::{{promoted#{}}}", owner, p.as_usize());
                    if self.no_promoted_eval {
                        return obj! {"k": J::s("const"), "ty": tyj, "v": obj!{"promoted": J::Str(pid)}};
                    }
                    let v = match c.const_.eval(tcx, self.env, c.span) {
                        Ok(val) => self.const_value(val, ty),
                        Err(_) => obj! {"promoted": J::Str(pid.clone())},
                    };
                    return obj! {"k": J::s("const"), "ty": tyj, "v": v, "promoted": J::Str(pid)};
                }
            }
        }
        let v = match c.const_.eval(tcx, self.env, c.span) {
            Ok(val) => self.const_value(val, ty),
            Err(_) => obj! {"unk": J::Str(format!("{:?}", c.const_))},
        };
        obj! {"k": J::s("const"), "ty": tyj, "v": v}
    }

    fn place(&mut self, p: &Place<'tcx>) -> J {
        let mut proj = vec![];
        for e in p.projection.iter() {
            let j = match e {
                ProjectionElem::Deref => J::Arr(vec![J::s("deref")]),
                ProjectionElem::Field(f, t) => {
                    let t = self.ty(t);
                    J::Arr(vec![J::s("field"), J::i(f.as_usize()), t])
                }
                ProjectionElem::Index(l) => J::Arr(vec![J::s("index"), J::i(l.as_usize())]),
                ProjectionElem::ConstantIndex { offset, min_length, from_end } => {
                    J::Arr(vec![J::s("cidx"), J::i(offset), J::i(min_length), J::Bool(from_end)])
                }
                ProjectionElem::Subslice { from, to, from_end } => {
                    J::Arr(vec![J::s("subslice"), J::i(from), J::i(to), J::Bool(from_end)])
                }
                ProjectionElem::Downcast(name, v) => J::Arr(vec![
                    J::s("downcast"),
                    J::i(v.as_usize()),
                    name.map(|n| J::Str(n.to_string())).unwrap_or(J::Null),
                ]),
                _ => J::Arr(vec![J::s("opaque")]),
            };
            proj.push(j);
        }
        obj! {"l": J::i(p.local.as_usize()), "p": J::Arr(proj)}
    }

    fn operand(&mut self, op: &Operand<'tcx>, owner: &str) -> J {
        match op {
            Operand::Copy(p) => obj! {"k": J::s("copy"), "pl": self.place(p)},
            Operand::Move(p) => obj! {"k": J::s("move"), "pl": self.place(p)},
            Operand::Constant(c) => self.constant(c, owner),
            #[allow(unreachable_patterns)]
            _ => obj! {"k": J::s("other"), "dbg": J::Str(format!("{:?}", op))},
        }
    }

    fn rvalue(&mut self, rv: &Rvalue<'tcx>, owner: &str) -> J {
        let tcx = self.tcx;
        match rv {
            Rvalue::Use(op, ..) => obj! {"k": J::s("use"), "op": self.operand(op, owner)},
            Rvalue::Repeat(op, n) => {
                let n = n.try_to_target_usize(tcx).map(J::i).unwrap_or(J::Null);
                obj! {"k": J::s("repeat"), "op": self.operand(op, owner), "n": n}
            }
            Rvalue::Ref(_, bk, p) => {
                let m = matches!(bk, BorrowKind::Mut { .. });
                obj! {"k": J::s("ref"), "mut": J::Bool(m), "pl": self.place(p)}
            }
            Rvalue::RawPtr(k, p) => {
                obj! {"k": J::s("rawptr"), "mut": J::Bool(format!("{:?}", k).contains("Mut")), "pl": self.place(p)}
            }
            Rvalue::Cast(ck, op, ty) => {
                let cks = format!("{:?}", ck);
                obj! {"k": J::s("cast"), "ck": J::Str(cks), "op": self.operand(op, owner), "ty": self.ty(*ty)}
            }
            Rvalue::BinaryOp(bop, ops) => {
                let (l, r) = &**ops;
                obj! {"k": J::s("bin"), "op": J::Str(format!("{:?}", bop)), "l": self.operand(l, owner), "r": self.operand(r, owner)}
            }
            Rvalue::UnaryOp(uop, x) => {
                obj! {"k": J::s("un"), "op": J::Str(format!("{:?}", uop)), "x": self.operand(x, owner)}
            }
            Rvalue::Discriminant(p) => obj! {"k": J::s("discr"), "pl": self.place(p)},
            Rvalue::Aggregate(ak, ops) => {
                let akj = match &**ak {
                    AggregateKind::Array(t) => obj! {"k": J::s("array"), "elem": self.ty(*t)},
                    AggregateKind::Tuple => obj! {"k": J::s("tuple")},
                    AggregateKind::Adt(did, vi, args, _, active) => {
                        let t = Ty::new_adt(tcx, tcx.adt_def(*did), args);
                        obj! {"k": J::s("adt"), "ty": self.ty(t), "variant": J::i(vi.as_usize()),
                        "union_field": active.map(|f| J::i(f.as_usize())).unwrap_or(J::Null)}
                    }
                    AggregateKind::Closure(did, _) => obj! {"k": J::s("closure"), "did": J::Str(did_key(tcx, *did))},
                    AggregateKind::Coroutine(did, _) => obj! {"k": J::s("coroutine"), "did": J::Str(did_key(tcx, *did))},
                    AggregateKind::CoroutineClosure(did, _) => {
                        obj! {"k": J::s("coroutine_closure"), "did": J::Str(did_key(tcx, *did))}
                    }
                    AggregateKind::RawPtr(..) => obj! {"k": J::s("rawptr")},
                };
                let v: Vec<J> = ops.iter().map(|o| self.operand(o, owner)).collect();
                obj! {"k": J::s("agg"), "ak": akj, "ops": J::Arr(v)}
            }
            Rvalue::CopyForDeref(p) => obj! {"k": J::s("use"), "op": obj!{"k": J::s("copy"), "pl": self.place(p)}},
            Rvalue::ThreadLocalRef(did) => obj! {"k": J::s("tlref"), "did": J::Str(did_key(tcx, *did))},
            _ => obj! {"k": J::s("other"), "dbg": J::Str(format!("{:?}", rv))},
        }
    }

    fn callee(&mut self, func: &Operand<'tcx>) -> J {
        let tcx = self.tcx;
        let Some((did, args)) = func.const_fn_def() else {
            return J::Null;
        };
        let args: GenericArgsRef<'tcx> = tcx.erase_and_anonymize_regions(args);
        let name = with_no_trimmed_paths!(tcx.def_path_str_with_args(did, args));
        let targs: Vec<J> = args.types().map(|t| self.ty(t)).collect();
        let tr = tcx.trait_of_assoc(did).map(|t| J::Str(with_no_trimmed_paths!(tcx.def_path_str(t)))).unwrap_or(J::Null);
        let mut o: Vec<(&'static str, J)> = vec![
            ("did", J::Str(did_key(tcx, did))),
            ("name", J::Str(name)),
            ("targs", J::Arr(targs)),
            ("trait", tr),
            ("item", J::Str(tcx.item_name(did).to_string())),
        ];
        match Instance::try_resolve(tcx, self.env, did, args) {
            Ok(Some(inst)) => {
                let rdid = inst.def_id();
                let rargs = inst.args;
                o.push(("rdid", J::Str(did_key(tcx, rdid))));
                o.push(("rname", J::Str(with_no_trimmed_paths!(tcx.def_path_str_with_args(rdid, rargs)))));
                let ik = format!("{:?}", inst.def);
                let ik = ik.split(|c| c == '(' || c == '{' || c == ' ').next().unwrap_or("").to_string();
                o.push(("ikind", J::Str(ik)));
                o.push(("rcrate", J::Str(tcx.crate_name(rdid.krate).to_string())));
                let rt: Vec<J> = rargs.types().map(|t| self.ty(t)).collect();
                o.push(("rtargs", J::Arr(rt)));
                if let Some(imp) = tcx.impl_of_assoc(rdid) {
                    let st = tcx.type_of(imp).instantiate_identity().skip_norm_wip();
                    o.push(("rself", J::Str(with_no_trimmed_paths!(format!("{}", st)))));
                }
            }
            _ => {
                o.push(("rdid", J::Null));
                o.push(("rcrate", J::Str(tcx.crate_name(did.krate).to_string())));
            }
        }
        J::Obj(o)
    }

    fn terminator(&mut self, t: &Terminator<'tcx>, owner: &str) -> J {
        let sp = self.span(t.source_info.span);
        let mut j = match &t.kind {
            TerminatorKind::Goto { target } => obj! {"k": J::s("goto"), "t": J::i(target.as_usize())},
            TerminatorKind::SwitchInt { discr, targets } => {
                let vals: Vec<J> = targets
                    .iter()
                    .map(|(v, bb)| J::Arr(vec![J::Str(format!("{}", v)), J::i(bb.as_usize())]))
                    .collect();
                obj! {"k": J::s("switch"), "op": self.operand(discr, owner), "vals": J::Arr(vals),
                "otherwise": J::i(targets.otherwise().as_usize())}
            }
            TerminatorKind::Return => obj! {"k": J::s("return")},
            TerminatorKind::Unreachable => obj! {"k": J::s("unreachable")},
            TerminatorKind::UnwindResume | TerminatorKind::UnwindTerminate(..) => obj! {"k": J::s("unwind")},
            TerminatorKind::Drop { place, target, .. } => {
                obj! {"k": J::s("drop"), "pl": self.place(place), "t": J::i(target.as_usize())}
            }
            TerminatorKind::Call { func, args, destination, target, .. } => {
                let a: Vec<J> = args.iter().map(|a| self.operand(&a.node, owner)).collect();
                obj! {"k": J::s("call"), "func": self.operand(func, owner), "callee": self.callee(func),
                "args": J::Arr(a), "dest": self.place(destination),
                "t": target.map(|t| J::i(t.as_usize())).unwrap_or(J::Null)}
            }
            TerminatorKind::TailCall { func, args, .. } => {
                let a: Vec<J> = args.iter().map(|a| self.operand(&a.node, owner)).collect();
                obj! {"k": J::s("tailcall"), "func": self.operand(func, owner), "callee": self.callee(func), "args": J::Arr(a)}
            }
            TerminatorKind::Assert { cond, expected, msg, target, .. } => {
                let (mk, mops): (String, Vec<J>) = match &**msg {
                    AssertKind::BoundsCheck { len, index } => {
                        ("BoundsCheck".into(), vec![self.operand(len, owner), self.operand(index, owner)])
                    }
                    AssertKind::Overflow(op, l, r) => {
                        (format!("Overflow({:?})", op), vec![self.operand(l, owner), self.operand(r, owner)])
                    }
                    AssertKind::OverflowNeg(x) => ("OverflowNeg".into(), vec![self.operand(x, owner)]),
                    AssertKind::DivisionByZero(x) => ("DivisionByZero".into(), vec![self.operand(x, owner)]),
                    AssertKind::RemainderByZero(x) => ("RemainderByZero".into(), vec![self.operand(x, owner)]),
                    other => {
                        let s = format!("{:?}", other);
                        (s.split('(').next().unwrap_or("").to_string(), vec![])
                    }
                };
                obj! {"k": J::s("assert"), "cond": self.operand(cond, owner), "expected": J::Bool(*expected),
                "msg": J::Str(mk), "ops": J::Arr(mops), "t": J::i(target.as_usize())}
            }
            TerminatorKind::Yield { value, resume, resume_arg, .. } => {
                obj! {"k": J::s("yield"), "value": self.operand(value, owner), "t": J::i(resume.as_usize()),
                "resume_arg": self.place(resume_arg)}
            }
            TerminatorKind::CoroutineDrop => obj! {"k": J::s("coroutine_drop")},
            TerminatorKind::FalseEdge { real_target, .. } => obj! {"k": J::s("goto"), "t": J::i(real_target.as_usize())},
            TerminatorKind::FalseUnwind { real_target, .. } => obj! {"k": J::s("goto"), "t": J::i(real_target.as_usize())},
            TerminatorKind::InlineAsm { .. } => obj! {"k": J::s("asm")},
        };
        if let J::Obj(o) = &mut j {
            o.push(("sp", sp));
        }
        j
    }

    fn body(&mut self, id: String, def_id: DefId, body: &Body<'tcx>, kind: &str) -> J {
        let tcx = self.tcx;
        let sm = tcx.sess.source_map();
        let loc = sm.lookup_char_pos(body.span.lo());
        self.cur_file = short_path(format!("{}", loc.file.name.prefer_local_unconditionally()));
        let mut locals = vec![];
        for d in body.local_decls.iter() {
            locals.push(self.ty(d.ty));
        }
        let mut dbg = vec![];
        for v in body.var_debug_info.iter() {
            if let VarDebugInfoContents::Place(p) = &v.value {
                dbg.push(J::Arr(vec![J::Str(v.name.to_string()), self.place(p)]));
            }
        }
        let mut blocks = vec![];
        for (_bb, data) in body.basic_blocks.iter_enumerated() {
            let mut stmts = vec![];
            for s in data.statements.iter() {
                match &s.kind {
                    StatementKind::Assign(b) => {
                        let (pl, rv) = &**b;
                        let j = obj! {"k": J::s("assign"), "pl": self.place(pl), "rv": self.rvalue(rv, &id),
                        "sp": self.span(s.source_info.span)};
                        stmts.push(j);
                    }
                    StatementKind::SetDiscriminant { place, variant_index } => {
                        stmts.push(obj! {"k": J::s("setdiscr"), "pl": self.place(place), "variant": J::i(variant_index.as_usize())});
                    }
                    StatementKind::StorageDead(l) => {
                        stmts.push(obj! {"k": J::s("dead"), "l": J::i(l.as_usize())});
                    }
                    StatementKind::Intrinsic(i) => {
                        stmts.push(obj! {"k": J::s("intrinsic"), "dbg": J::Str(format!("{:?}", i))});
                    }
                    _ => {}
                }
            }
            let term = match &data.terminator {
                Some(t) => self.terminator(t, &id),
                None => J::Null,
            };
            blocks.push(obj! {"s": J::Arr(stmts), "t": term, "cleanup": J::Bool(data.is_cleanup)});
        }
        // impl / trait information for entry-point lookup
        let mut impl_j = J::Null;
        if matches!(tcx.def_kind(def_id), DefKind::AssocFn) {
            if let Some(imp) = tcx.impl_of_assoc(def_id) {
                let st = tcx.type_of(imp).instantiate_identity().skip_norm_wip();
                let tr = tcx
                    .impl_opt_trait_ref(imp)
                    .map(|t| J::Str(with_no_trimmed_paths!(format!("{}", t.instantiate_identity().skip_norm_wip().print_only_trait_path()))))
                    .unwrap_or(J::Null);
                impl_j = obj! {"self": J::Str(with_no_trimmed_paths!(format!("{}", st))), "trait": tr};
            }
        }
        obj! {
            "id": J::Str(id),
            "name": J::Str(with_no_trimmed_paths!(tcx.def_path_str(def_id))),
            "item": J::Str(tcx.opt_item_name(def_id).map(|s| s.to_string()).unwrap_or_default()),
            "kind": J::s(kind),
            "file": J::Str(self.cur_file.clone()),
            "line": J::i(loc.line),
            "argc": J::i(body.arg_count),
            "locals": J::Arr(locals),
            "dbg": J::Arr(dbg),
            "impl": impl_j,
            "blocks": J::Arr(blocks)
        }
    }
}

pub fn collect_coroutines(tcx: TyCtxt<'_>) -> Collected {
    let mut c = Collected::default();
    for ldid in tcx.hir_body_owners() {
        let did = ldid.to_def_id();
        if !tcx.is_coroutine(did) {
            continue;
        }
        let id = did_key(tcx, did);
        let (body, promoted) = tcx.mir_promoted(ldid);
        let body = body.borrow();
        let promoted = promoted.borrow();
        let mut cx = Cx {
            tcx,
            c: &mut c,
            env: TypingEnv::post_analysis(tcx, did),
            no_promoted_eval: true,
            cur_file: String::new(),
        };
        let j = cx.body(id.clone(), did, &body, "coroutine");
        cx.c.bodies.push(j);
        for (pi, pb) in promoted.iter_enumerated() {
            let pid = format!("{}::{{promoted#{}}}", id, pi.as_usize());
            let j = cx.body(pid, did, pb, "promoted");
            cx.c.bodies.push(j);
        }
        c.done_bodies.push(id);
    }
    c
}

pub fn dump_crate(tcx: TyCtxt<'_>, mut c: Collected, out_dir: &str) {
    let crate_name = tcx.crate_name(rustc_hir::def_id::LOCAL_CRATE).to_string();
    let mut skipped = vec![];
    for ldid in tcx.hir_body_owners() {
        let did = ldid.to_def_id();
        let id = did_key(tcx, did);
        if c.done_bodies.contains(&id) {
            continue;
        }
        let kind = tcx.def_kind(did);
        let kname = match kind {
            DefKind::Fn | DefKind::AssocFn => "fn",
            DefKind::Closure => "closure",
            _ => {
                skipped.push(J::Arr(vec![J::Str(id), J::Str(format!("{:?}", kind))]));
                continue;
            }
        };
        if tcx.is_coroutine(did) {
            continue;
        }
        let body = tcx.optimized_mir(did);
        let mut cx = Cx {
            tcx,
            c: &mut c,
            env: TypingEnv::post_analysis(tcx, did),
            no_promoted_eval: false,
            cur_file: String::new(),
        };
        let j = cx.body(id.clone(), did, body, kname);
        cx.c.bodies.push(j);
        let promoted = tcx.promoted_mir(did);
        for (pi, pb) in promoted.iter_enumerated() {
            let pid = format!("{}::{{promoted#{}}}", id, pi.as_usize());
            let j = cx.body(pid, did, pb, "promoted");
            cx.c.bodies.push(j);
        }
    }
    let nb = c.bodies.len();
    let root = obj! {
        "crate": J::Str(crate_name.clone()),
        "types": J::Arr(std::mem::take(&mut c.types)),
        "allocs": J::Arr(std::mem::take(&mut c.allocs)),
        "bodies": J::Arr(std::mem::take(&mut c.bodies)),
        "skipped": J::Arr(skipped)
    };
    let mut s = String::with_capacity(64 << 20);
    root.write(&mut s);
    let is_test = std::env::args().any(|a| a == "--test");
    let path = format!("{}/{}{}.json", out_dir, crate_name, if is_test { "-test" } else { "" });
    let tmp = format!("{}.tmp{}", path, std::process::id());
    std::fs::write(&tmp, s.as_bytes()).expect("vdrv: cannot write fact file");
    std::fs::rename(&tmp, &path).expect("vdrv: cannot rename fact file");
    eprintln!("vdrv: {} bodies -> {}", nb, path);
}
