// vdrv: rustc_private driver that exports the type-checked program (MIR with resolved
// callees, evaluated constants, type/ADT layouts) of the workspace crates as one JSON fact
// file per crate.  All analysis is done by /verif/checker (python) over these facts.
#![feature(rustc_private)]
#![allow(clippy::all)]

extern crate rustc_abi;
extern crate rustc_driver;
extern crate rustc_hir;
extern crate rustc_interface;
extern crate rustc_middle;
extern crate rustc_session;
extern crate rustc_span;

mod dump;
mod json;

use rustc_driver::Compilation;
use rustc_interface::interface::Compiler;
use rustc_middle::ty::TyCtxt;

struct Plain;
impl rustc_driver::Callbacks for Plain {}

struct Cb {
    out_dir: String,
    dumper: Option<dump::Collected>,
}

impl rustc_driver::Callbacks for Cb {
    fn after_expansion<'tcx>(&mut self, _c: &Compiler, tcx: TyCtxt<'tcx>) -> Compilation {
        // coroutine bodies (async fn / stream!) must be read before borrowck steals them
        self.dumper = Some(dump::collect_coroutines(tcx));
        Compilation::Continue
    }
    fn after_analysis<'tcx>(&mut self, _c: &Compiler, tcx: TyCtxt<'tcx>) -> Compilation {
        let pre = self.dumper.take().unwrap_or_default();
        dump::dump_crate(tcx, pre, &self.out_dir);
        Compilation::Continue
    }
}

fn main() {
    // RUSTC_WORKSPACE_WRAPPER calls: vdrv <rustc> <args...>
    let mut args: Vec<String> = std::env::args().collect();
    if args.len() > 1 && (args[1].ends_with("rustc") || args[1].contains("/rustc")) {
        args.remove(1);
    }
    let crate_name = args
        .iter()
        .position(|a| a == "--crate-name")
        .and_then(|i| args.get(i + 1))
        .cloned()
        .unwrap_or_default();
    let wanted = std::env::var("VDRV_CRATES").unwrap_or_else(|_| "rs1090,jet1090,decode1090".into());
    let out_dir = std::env::var("VDRV_OUT").unwrap_or_default();
    let is_wanted = !out_dir.is_empty()
        && wanted.split(',').any(|w| w == crate_name)
        && !args.iter().any(|a| a == "--print" || a.starts_with("--print="));
    if is_wanted {
        let mut cb = Cb { out_dir, dumper: None };
        rustc_driver::run_compiler(&args, &mut cb);
    } else {
        rustc_driver::run_compiler(&args, &mut Plain);
    }
}
