// minimal JSON value + writer (no external crates available to a rustc_private driver here)
use std::fmt::Write;

#[derive(Clone, Debug)]
pub enum J {
    Null,
    Bool(bool),
    Int(i128),
    Str(String),
    Arr(Vec<J>),
    Obj(Vec<(&'static str, J)>),
}

impl J {
    pub fn s<T: Into<String>>(x: T) -> J {
        J::Str(x.into())
    }
    pub fn i<T: TryInto<i128>>(x: T) -> J {
        match x.try_into() {
            Ok(v) => J::Int(v),
            Err(_) => J::Null,
        }
    }
    pub fn write(&self, out: &mut String) {
        match self {
            J::Null => out.push_str("null"),
            J::Bool(b) => out.push_str(if *b { "true" } else { "false" }),
            J::Int(i) => {
                let _ = write!(out, "{}", i);
            }
            J::Str(s) => write_str(s, out),
            J::Arr(a) => {
                out.push('[');
                for (k, v) in a.iter().enumerate() {
                    if k > 0 {
                        out.push(',');
                    }
                    v.write(out);
                }
                out.push(']');
            }
            J::Obj(o) => {
                out.push('{');
                for (k, (key, v)) in o.iter().enumerate() {
                    if k > 0 {
                        out.push(',');
                    }
                    write_str(key, out);
                    out.push(':');
                    v.write(out);
                }
                out.push('}');
            }
        }
    }
}

fn write_str(s: &str, out: &mut String) {
    out.push('"');
    for c in s.chars() {
        match c {
            '"' => out.push_str("\\\""),
            '\\' => out.push_str("\\\\"),
            '\n' => out.push_str("\\n"),
            '\r' => out.push_str("\\r"),
            '\t' => out.push_str("\\t"),
            c if (c as u32) < 0x20 => {
                let _ = write!(out, "\\u{:04x}", c as u32);
            }
            c => out.push(c),
        }
    }
    out.push('"');
}

#[macro_export]
macro_rules! obj {
    ($($k:literal : $v:expr),* $(,)?) => {
        $crate::json::J::Obj(vec![$(($k, $v)),*])
    };
}
